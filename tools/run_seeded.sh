#!/bin/bash
# Applies a seeded change to /repo, runs the given checks (default: the change's own property), reverts.
# Usage: tools/run_seeded.sh <seeded-id> [Cxx ...]
cd /verif
id=$1; shift
patch=seeded/$id/patch.diff
[ -f $patch ] || { echo "no $patch"; exit 2; }
git -C /repo diff --quiet || { echo "/repo has uncommitted changes"; exit 2; }
props="$@"
[ -z "$props" ] && props=$(python3 -c "import json;print(json.load(open('seeded/$id/meta.json'))['property'])")
if ! git -C /repo apply $PWD/$patch 2>/dev/null; then
  # the patch was made against an older HEAD (hook lines moved): apply with fuzz and re-base it
  (cd /repo && patch -p1 --fuzz=3 --no-backup-if-mismatch < /verif/$patch) || { git -C /repo checkout -- .; echo "patch does not apply"; exit 2; }
  git -C /repo diff -- src > $PWD/$patch
fi
out=seeded/$id/results.txt
for p in $props; do
  echo "== ./check $p quick" | tee -a $out
  ./check $p quick 2>&1 | grep -E "VIOLATION|KNOWN-FINDING|clause=|HARNESS|quick: cases" | cut -c1-400 | tee -a $out
  echo "exit=${PIPESTATUS[0]}" | tee -a $out
done
git -C /repo checkout -- .
# rebuild the harness against the clean tree so that the next check starts from it
./check build > /dev/null
