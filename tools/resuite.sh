#!/bin/bash
# Re-runs the existing suite in a seeded worktree (demo moved aside) and prints failing test names.
wt=$1
cd $wt || exit 2
export CARGO_TARGET_DIR=$wt/target CARGO_NET_OFFLINE=true
mv tests/seeded_demo.rs /tmp/resuite-demo-$$.rs
timeout 2400 cargo test --offline --workspace --no-fail-fast > /tmp/resuite-$$.log 2>&1
grep -E "^test result" /tmp/resuite-$$.log | awk '{p+=$4; f+=$6} END {print "passed="p" failed="f}'
grep -E "^test .* FAILED|^    [a-z_:]+$" /tmp/resuite-$$.log | sort | uniq | head
mv /tmp/resuite-demo-$$.rs tests/seeded_demo.rs
rm -f /tmp/resuite-$$.log
