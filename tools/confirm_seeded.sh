#!/bin/bash
# Confirms a seeded change in its scratch worktree: demo fails with the change, passes without,
# and the existing suite (without the demo) passes with the change. Usage: confirm_seeded.sh <worktree>
wt=$1
export CARGO_TARGET_DIR=$wt/target CARGO_NET_OFFLINE=true
cd $wt || exit 2
out=$wt/SEEDED/confirm.txt
: > $out
git diff -- src > /tmp/confirm-$$.diff
[ -s /tmp/confirm-$$.diff ] || { echo "no change applied" >> $out; exit 2; }
echo "== demo WITH change" >> $out
timeout 1200 cargo test --offline --test seeded_demo > /tmp/confirm-$$.log 2>&1; echo "exit=$?" >> $out; grep -E "^test result|panicked|FAILED|failed" /tmp/confirm-$$.log | head -5 >> $out
echo "== suite WITH change (demo moved aside)" >> $out
mv tests/seeded_demo.rs /tmp/seeded_demo-$$.rs
timeout 2400 cargo test --offline --workspace --no-fail-fast > /tmp/confirm-$$.log 2>&1; echo "exit=$?" >> $out
grep -E "^test result" /tmp/confirm-$$.log | awk '{p+=$4; f+=$6} END {print "passed="p" failed="f}' >> $out
mv /tmp/seeded_demo-$$.rs tests/seeded_demo.rs
echo "== demo WITHOUT change" >> $out
git checkout -- src
timeout 1200 cargo test --offline --test seeded_demo > /tmp/confirm-$$.log 2>&1; echo "exit=$?" >> $out; grep -E "^test result" /tmp/confirm-$$.log | head -3 >> $out
git apply /tmp/confirm-$$.diff
rm -f /tmp/confirm-$$.diff /tmp/confirm-$$.log
cat $out
