#!/usr/bin/env python3
"""Regenerates MANIFEST.json from the table below (run from /verif)."""
import json, subprocess
props = [json.loads(l) for l in open('properties.jsonl')]
CLAIMS = {
 "C01": ("exploration", "seeded search over random operation programs (1-3 keyspaces, prefix-related keys, values up to 70 KB on both sides of the journal compression and blob separation thresholds) with the placement of rotate / flush / compact / major-compact / journal-rotation steps drawn per run; every result is compared with a sorted-map model and every read path of every keyspace is cross-checked after each step",
         "SEQ engine + sorted-map reference model, maintenance placement as replayable input"),
 "C04": ("exploration", "histories mixing journaled writes, batches, transactions, clear, bulk ingestion over existing keys, keyspace delete/re-create, maintenance and repeated clean reopen; full model equality (names and content, point reads = scans) before every close and after every reopen",
         "SEQ engine + reference model across close/reopen cycles"),
 "C05": ("exploration", "SEQ part (3 of 4 cases): lifetimes of snapshots, read transactions, write-transaction views and lazily consumed iterators (several opened at the same instant, closed in any order) interleaved with writes, clears, ingestions, every maintenance step, snapshot GC and 10k-close bursts; every read through a view is compared with the model copy frozen at its creation. THR part (every 4th case): reader threads hold views while writer threads and fjall workers run under the seeded scheduler; each view must be repeatable and equal one instant between invocation and return of its creation (linearizability with snapshot observations)",
         "SEQ engine, frozen model copies per view"),
 "C07": ("exploration", "SEQ part (3 of 4 cases): 2-4 optimistic transactions open at once (incl. several begun at the same instant), all read and write methods, values derived from reads, helper single-ops interleaved; brute-force search for a serial order consistent with real time that reproduces every recorded read and the final state. THR part: 2-3 threads running transactions and helper ops under the seeded scheduler with yield points inside Oracle::with_commit, same checker with scheduler stamps as real time",
         "SEQ interleaving of transaction handles + brute-force serialisability checker"),
 "C08": ("exploration", "SEQ part (3 of 4 cases): in-transaction programs on both transactional databases compared op by op with snapshot+overlay model (read-your-writes, last write wins, take/fetch_update/update_fetch return values), outside reads see nothing before commit, commit applies the final write per key at once, rollback/drop change nothing. THR part: 2-3 threads running single-writer read-modify-write transactions whose new value is derived from the value read; monitor: never two live single-writer transactions; serial-order checker: no lost update",
         "SEQ engine, snapshot+overlay transaction model"),
 "C11": ("exploration", "pre-reopen history classes (journal only, tables only, both, last level, ingested, cleared, tombstone in another keyspace) x 1-4 clean reopen cycles, then overwrite / remove / snapshot reads against the model; after every reopen the seqno counter must exceed every seqno held by any keyspace",
         "SEQ engine + model, doc-hidden seqno()/tree accessors for the counter clause"),
 "C12": ("exploration", "create / write / delete / re-create histories over up to 4 names with old handles kept alive, reopen at drawn points and a final 'create every name again' phase; per-name model, names listing, stale-handle writes must return KeyspaceDeleted, folders of deleted incarnations must be gone after reopen",
         "SEQ engine + per-incarnation model"),
 "C16": ("exploration", "random KeyspaceCreateOptions (policy vectors of length 1..255, extreme numeric values, both strategies, blob options) at creation; different options passed at every later open; the option rows re-encoded by the real encode_kvs after every (re)open must equal those at creation. The pure codec round-trip part is input generation, not simulation (DESIGN §4)",
         "SEQ engine across reopen; stored-row comparison"),
 "C18": ("exploration", "name->filter assignment subsets, keep/remove/replace verdicts decided from the key, filtered and unfiltered keyspaces under random maintenance and reopen; oracle = set of contents allowed by the three-valued item model (original / filtered, sticky once observed), unfiltered keyspaces exact",
         "SEQ engine + three-valued filter model"),
 "C02": ("fault_enumeration", "random write workloads (single writes, batches, transactions, clears, keyspace create/delete, rotation/flush/compaction steps, scaled journal rotation and eviction, clean reopen) run under the libc monitor: before EVERY file-mutating or sync call of the run a copy of the real directory is taken (plus sampled torn splits of every write), reopened with the real Database::open and compared with the set of prefix states {acknowledged, acknowledged + op in flight}; every 4th state is reopened twice",
         "process-crash state enumeration over all classified libc calls of each generated run + prefix-state oracle"),
 "C03": ("fault_enumeration", "journals of 2-8 commits (single ops, multi-keyspace batches, tombstones, clears, transaction commits, LZ4-compressed values) built by the real code, then cut at EVERY byte offset of the valid region (sampled around record boundaries for journals > 1500 B), once ending there and once zero-padded to the pre-allocated length; recovered state must equal the complete batches before the cut; every third cut also appends to the repaired journal and reopens",
         "exhaustive journal cut sweep per generated layout"),
 "C09": ("fault_enumeration", "power-loss adversary: every file reverts to its content at its last fsync/fdatasync (variant 1: a prefix of the unsynced tail survives); a power-loss state is built before EVERY classified libc call of programs with persist(Buffer|SyncData|SyncAll), sync-durability batches, manual journal persist, journal rotation and reopen; everything acknowledged before the last successful sync-type operation must be present and every key must hold a value it held at or after that point",
         "power-loss state enumeration over all classified calls + durable-lower-bound oracle"),
 "C10": ("fault_enumeration", "2-3 keyspaces written alternately with a scaled-down journal rotation threshold (512-4096 B) so that runs seal and evict journals, one keyspace lagging, clears and keyspace deletion mixed in; a crash state is taken immediately after EVERY unlink of a journal file and must reopen to the full acknowledged state; unlink order must be ascending; after a final quiesce journal_count() must be 1",
         "crash-state after every journal unlink + eviction order + journal count"),
 "C13": ("fault_enumeration", "write-only programs with incompressible > 8 KiB values (so that faults land inside write_raw/write_batch/write_clear, not only in persist); EIO / ENOSPC / short write injected at the n-th journal write, fsync/fdatasync, create or truncate for EVERY n of the run (baseline run counts the calls), transient and persistent disk-full modes; the failing call must report an error, nothing may be acknowledged afterwards, reopen must show the acknowledged prefix with the failed op all-or-nothing",
         "I/O error sweep over every matching call index"),
 "C15": ("fault_enumeration", "round trip: keys up to 65535 B, values empty / around the 4096 B compression threshold / 64 KiB, compressible and random, inside batches and alone, tombstones, clears, journal compression on or off at write time and the other setting at read time: exact bytes. Damage: EVERY byte of the journal altered with 6 patterns (all 255 values in thorough classes) on journals whose batches overlap on keys: open must fail or show a prefix state",
         "journal round trip across compression settings + exhaustive single-byte damage sweep"),
 "C17": ("exploration", "open / keyspace handle / clone / drop / second-open sequences on all three database kinds with 0-2 real worker threads and queued background work at drop time: second open must fail with Locked (and leave the directory digest unchanged when no worker runs) while any handle lives, and succeed immediately after the last drop with the full content; version marker absent / empty / arbitrary bytes / FJL+v for all v != 3: open refused and directory digest unchanged",
         "handle-lifetime sequences + version-marker sweep with directory digests"),
 "C06": ("exploration", "THR engine: 1-2 writer threads committing multi-keyspace batches / transactions, 1-2 reader threads taking snapshots / read transactions / single scans and reading across keyspaces, a third thread keeping fjall's own 1-2 worker threads busy with rotations, flushes and compactions; every hand-over between threads happens at hook points inside the commit critical section (after seqno draw, after journal append, after each item apply, before publish) and is chosen by the seeded scheduler; each snapshot observation must be one atomic read in a linearization of the batch commits",
         "seeded baton scheduler over real threads + linearizability checker with snapshot observations as atomic multi-key reads"),
 "C14": ("exploration", "THR engine: 2-4 client threads x 3-10 single operations (insert, remove, get, contains_key, size_of; classes with scans, small batches and bulk ingestion) over 2-3 keys with tiny memtables and a scaled journal rotation threshold so that fjall's 1-2 worker threads rotate, flush, compact and rotate journals continuously; recorded invoke/return stamps are checked for linearizability against the map model including the final content; deadlock / no-progress detection (every live thread blocked) and a step budget after which the scheduler turns fair decide the liveness clause",
         "seeded baton scheduler + Wing-Gong linearizability search + exact deadlock detection"),
}
NOTE = "samples, does not enumerate; lsm-tree/flume/dashmap operations are atomic steps; SEQ replaces the worker thread by explicit steps into the real worker_tick"
hooks_commits = subprocess.check_output(["git","-C","/repo","log","--format=%h","--grep=^verif hooks"], text=True).split()
checks=[]
for p in props:
    if p['id'] in CLAIMS:
        lvl, text, tech = CLAIMS[p['id']]
        checks.append({
          "property_id": p['id'],
          "quick_cmd": f"./check {p['id']} quick",
          "thorough_cmd": f"./check {p['id']} thorough",
          "evidence_file": f"evidence/{p['id']}.json",
          "replay_cmd_template": "./check replay {path}",
          "engine": "fjsim",
          "level_claimed": {"category": lvl, "text": text, "design_ref": f"DESIGN.md §5 {p['id']}"},
          "level_note": NOTE,
          "technique": "deterministic simulation with fault injection: " + tech,
        })
m={"version":1,"setup_cmd":"./check build",
 "hooks":{"guard":"fjall_verif","enable":"rustflags --cfg fjall_verif (sim/.cargo/config.toml); the harness installs fjall::verif::Hooks at start-up","baseline_off_cmd":"cd /repo && cargo test --workspace --no-fail-fast --offline","source_commits":hooks_commits,"add_only":True},
 "engines":[{"name":"fjsim","path":"sim","serves_properties":sorted(CLAIMS),"kind_free_text":"deterministic simulator: libc interposition (crash / power-loss / I/O faults), explicit worker stepping (SEQ), seeded baton thread scheduler (THR), reference-model oracles, delta-debugging minimiser, replay files"}],
 "checks":checks,
 "not_applicable":[{"property_id":p['id'],"reason":"check not yet registered at this commit (machinery under construction; design in DESIGN.md §5)"} for p in props if p['id'] not in CLAIMS],
 "notes":"known findings: known_findings.json; regression replays of repaired defects: findings/; see DESIGN.md"}
json.dump(m,open('MANIFEST.json','w'),indent=1)
print("claimed", sorted(CLAIMS))
