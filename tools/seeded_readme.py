#!/usr/bin/env python3
"""Rebuilds seeded/README.md table from seeded/*/meta.json and results.txt (run from /verif)."""
import json, glob, os, re
head = open('seeded/README.md').read().split('| id | property |')[0]
rows = []
for d in sorted(glob.glob('seeded/*/')):
    i = os.path.basename(d.rstrip('/'))
    try: m = json.load(open(d + 'meta.json'))
    except Exception: continue
    caught = []
    if os.path.exists(d + 'results.txt'):
        cur = None
        for line in open(d + 'results.txt', errors='replace'):
            mm = re.match(r'== ./check (C\d\d)', line)
            if mm: cur = mm.group(1); got = set()
            if line.startswith('VIOLATION') and cur: got.add('v')
            mc = re.search(r'clause=([\w-]+)', line)
            if mc and cur: caught.append((cur, mc.group(1)))
    by = {}
    for c, cl in caught: by.setdefault(c, set()).add(cl)
    caught_s = '; '.join(f"{c} ({', '.join(sorted(v))})" for c, v in sorted(by.items())) or 'NOT CAUGHT'
    m['caught_by'] = caught_s
    json.dump(m, open(d + 'meta.json', 'w'), indent=1)
    rows.append(f"| {i} | {m.get('property')} | {m.get('summary','').replace('|','/')} | {m.get('needs','').replace('|','/')[:300]} | {caught_s} |")
open('seeded/README.md', 'w').write(head + '| id | property | change | needs | caught by |\n|----|----------|--------|-------|-----------|\n' + '\n'.join(rows) + '\n')
print('\n'.join(r[:200] for r in rows))

# compact table for DESIGN.md section 13 (between markers)
d = open('DESIGN.md').read()
b, e = '<!-- seeded-table-begin -->', '<!-- seeded-table-end -->'
if b in d and e in d:
    lines = ['| id | breaks | change (short) | reported by |', '|----|--------|----------------|-------------|']
    for dd in sorted(glob.glob('seeded/*/')):
        i = os.path.basename(dd.rstrip('/'))
        try: m = json.load(open(dd + 'meta.json'))
        except Exception: continue
        short = m.get('summary', '').replace('|', '/').replace('\n', ' ')
        short = short[:230] + ('...' if len(short) > 230 else '')
        lines.append(f"| {i} | {m.get('property')} | {short} | {m.get('caught_by', '?')} |")
    d = d.split(b)[0] + b + '\n' + '\n'.join(lines) + '\n' + e + d.split(e)[1]
    open('DESIGN.md', 'w').write(d)
