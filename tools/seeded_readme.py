#!/usr/bin/env python3
"""Rebuilds seeded/README.md table from seeded/*/meta.json and results.txt (run from /verif)."""
import json, glob, os, re
head = open('seeded/README.md').read().split('| id | property |')[0]
rows = []
for d in sorted(glob.glob('seeded/*/')):
    i = os.path.basename(d.rstrip('/'))
    try: m = json.load(open(d + 'meta.json'))
    except Exception: continue
    caught = []
    if os.path.exists(d + 'results.txt'):
        cur = None
        for line in open(d + 'results.txt', errors='replace'):
            mm = re.match(r'== ./check (C\d\d)', line)
            if mm: cur = mm.group(1); got = set()
            if line.startswith('VIOLATION') and cur: got.add('v')
            mc = re.search(r'clause=([\w-]+)', line)
            if mc and cur: caught.append((cur, mc.group(1)))
    by = {}
    for c, cl in caught: by.setdefault(c, set()).add(cl)
    caught_s = '; '.join(f"{c} ({', '.join(sorted(v))})" for c, v in sorted(by.items())) or 'NOT CAUGHT'
    m['caught_by'] = caught_s
    json.dump(m, open(d + 'meta.json', 'w'), indent=1)
    rows.append(f"| {i} | {m.get('property')} | {m.get('summary','').replace('|','/')} | {m.get('needs','').replace('|','/')[:300]} | {caught_s} |")
open('seeded/README.md', 'w').write(head + '| id | property | change | needs | caught by |\n|----|----------|--------|-------|-----------|\n' + '\n'.join(rows) + '\n')
print('\n'.join(r[:200] for r in rows))
