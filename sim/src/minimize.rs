//! Delta-debugging of a failing case: drop ops (program and thread programs), shrink values,
//! simplify configuration, while the same violation clause keeps failing.

use crate::case::*;
use std::time::Instant;

fn fails_once(case: &Case, clause: &str) -> Option<(String, Option<Vec<u16>>, Option<Fault>)> {
    let o = crate::run_one(case, "min");
    if o.harness_error.is_some() {
        return None;
    }
    match o.violation {
        Some(v) if v.clause == clause => Some((v.detail, o.schedule, o.narrowed)),
        _ => None,
    }
}

/// Does the case still violate `clause`? For THR cases whose recorded schedule no longer applies
/// after a program change, a bounded number of fresh schedules is searched; the schedule that
/// fails is returned so that the caller can make it the explicit one again.
fn fails(case: &Case, clause: &str) -> Option<(String, Option<Vec<u16>>, Option<Fault>)> {
    if let Some(r) = fails_once(case, clause) {
        return Some(r);
    }
    if case.engine == Engine::Thr && case.schedule.is_some() {
        for k in 0..24u64 {
            let mut c = case.clone();
            c.schedule = None;
            c.cfg.sched_seed = crate::rng::mix(case.cfg.sched_seed ^ k.wrapping_mul(0x9E37_79B9));
            c.cfg.stickiness = [0u8, 30, 50, 70, 90][(k % 5) as usize];
            if let Some(r) = fails_once(&c, clause) {
                return Some(r);
            }
        }
    }
    None
}

fn shrink_vals(case: &mut Case) {
    fn sv(v: &mut Val) {
        if v.size > 8 {
            v.size = 8;
        }
        v.compressible = true;
    }
    fn so(op: &mut Op) {
        match op {
            Op::Insert { val, .. } | Op::TxKsInsert { val, .. } | Op::StaleInsert { val, .. } => sv(val),
            Op::Batch { items, .. } => {
                for i in items {
                    if let BKind::Put(v) = &mut i.kind {
                        sv(v);
                    }
                }
            }
            Op::Ingest { items, .. } => {
                for (_, v) in items {
                    if let Some(v) = v {
                        sv(v);
                    }
                }
            }
            Op::TxOp { op: TxOp::Insert { val, .. }, .. } => sv(val),
            _ => {}
        }
    }
    for op in &mut case.program {
        so(op);
    }
    for t in &mut case.threads {
        for op in t {
            so(op);
        }
    }
}

/// ddmin over one op list selected by `sel`
fn reduce_list(
    case: &mut Case,
    clause: &str,
    sel: &dyn Fn(&mut Case) -> &mut Vec<Op>,
    deadline: Instant,
    detail: &mut String,
) {
    let mut chunk = (sel(case).len() / 2).max(1);
    loop {
        let mut i = 0;
        let mut progressed = false;
        while i < sel(case).len() {
            if Instant::now() > deadline {
                return;
            }
            let mut trial = case.clone();
            let list = sel(&mut trial);
            let end = (i + chunk).min(list.len());
            // never remove the RunThreads marker
            if list[i..end].iter().any(|o| matches!(o, Op::RunThreads)) && chunk == 1 {
                i += 1;
                continue;
            }
            let removed: Vec<Op> = list.drain(i..end).collect();
            if removed.iter().any(|o| matches!(o, Op::RunThreads)) {
                i += chunk;
                continue;
            }
            if let Some((d, sch, nf)) = fails(&trial, clause) {
                if trial.schedule.is_some() {
                    if let Some(s) = sch {
                        trial.schedule = Some(s);
                    }
                }
                if let Some(f) = nf {
                    trial.fault = f;
                }
                *case = trial;
                *detail = d;
                progressed = true;
            } else {
                i += chunk;
            }
        }
        if chunk == 1 && !progressed {
            break;
        }
        if chunk > 1 {
            chunk /= 2;
        }
    }
}

pub fn minimize(mut case: Case, budget_secs: f64) -> Option<Replay> {
    let deadline = Instant::now() + std::time::Duration::from_secs_f64(budget_secs);
    let o = crate::run_one(&case, "min");
    let dbg = std::env::var("FJSIM_MIN_DEBUG").is_ok();
    if dbg {
        eprintln!("min: first run violation={:?} schedule_len={:?}", o.violation.as_ref().map(|v| v.clause.clone()), o.schedule.as_ref().map(Vec::len));
    }
    let v = o.violation?;
    let clause = v.clause.clone();
    let mut detail = v.detail.clone();
    if case.engine == Engine::Thr && case.schedule.is_none() {
        case.schedule = o.schedule.clone();
    }
    if let Some(f) = o.narrowed {
        case.fault = f;
    }
    // it must reproduce from the explicit form
    if dbg {
        eprintln!("min: explicit form once -> {:?}", fails_once(&case, &clause).map(|r| r.0.chars().take(120).collect::<String>()));
    }
    let (d, sch, _) = fails(&case, &clause)?;
    if case.engine == Engine::Thr {
        if let Some(s) = sch {
            case.schedule = Some(s);
        }
    }
    detail = d;
    let first_explicit = case.clone();

    // truncate after the failing op (SEQ)
    if let (Engine::Seq, Some(idx)) = (&case.engine, v.op_index) {
        let mut trial = case.clone();
        trial.program.truncate(idx + 1);
        if let Some((d, _, nf)) = fails(&trial, &clause) {
            if let Some(f) = nf {
                trial.fault = f;
            }
            case = trial;
            detail = d;
        }
    }

    let nthreads = case.threads.len();
    for round in 0..2 {
        reduce_list(&mut case, &clause, &|c| &mut c.program, deadline, &mut detail);
        for t in 0..nthreads {
            reduce_list(&mut case, &clause, &move |c| &mut c.threads[t], deadline, &mut detail);
        }
        if round == 0 {
            // shrink values
            let mut trial = case.clone();
            shrink_vals(&mut trial);
            if trial != case {
                if let Some((d, sch, _)) = fails(&trial, &clause) {
                    if trial.schedule.is_some() {
                        if let Some(s) = sch {
                            trial.schedule = Some(s);
                        }
                    }
                    case = trial;
                    detail = d;
                }
            }
            // simplify configuration knobs one at a time
            let knobs: Vec<Box<dyn Fn(&mut Case)>> = vec![
                Box::new(|c| c.cfg.rotation_threshold = 0),
                Box::new(|c| c.cfg.journal_lz4 = false),
                Box::new(|c| c.cfg.check_every = 0),
                Box::new(|c| {
                    for o in &mut c.cfg.opts {
                        *o = KsOpts::default();
                    }
                }),
                Box::new(|c| {
                    for o in &mut c.cfg.opts {
                        o.blob = None;
                    }
                }),
                Box::new(|c| {
                    for o in &mut c.cfg.opts {
                        o.max_memtable = 0;
                    }
                }),
            ];
            for k in knobs {
                if Instant::now() > deadline {
                    break;
                }
                let mut trial = case.clone();
                k(&mut trial);
                if trial != case {
                    if let Some((d, sch, _)) = fails(&trial, &clause) {
                        if trial.schedule.is_some() {
                            if let Some(s) = sch {
                                trial.schedule = Some(s);
                            }
                        }
                        case = trial;
                        detail = d;
                    }
                }
            }
        }
        if Instant::now() > deadline {
            break;
        }
    }
    // schedule minimisation (THR): remove context switches one at a time by replacing a choice
    // with the previously running thread
    if case.engine == Engine::Thr {
        if let Some(mut sch) = case.schedule.clone() {
            // first: cut the tail that is not needed
            let mut i = 1;
            while i < sch.len() && Instant::now() < deadline {
                if sch[i] != sch[i - 1] {
                    let mut trial = case.clone();
                    let mut s2 = sch.clone();
                    s2[i] = s2[i - 1];
                    trial.schedule = Some(s2.clone());
                    // exactly this schedule must fail (no search for another one here)
                    if let Some((d, _, _)) = fails_once(&trial, &clause) {
                        sch = s2;
                        case = trial;
                        detail = d;
                        continue;
                    }
                }
                i += 1;
            }
            case.schedule = Some(sch);
        }
    }
    // final confirmation from the explicit minimised form (a THR case must fail under its own
    // explicit schedule, not under a freshly searched one)
    if dbg {
        eprintln!("min: final form: program {} ops, threads {:?}, schedule {:?}", case.program.len(), case.threads.iter().map(Vec::len).collect::<Vec<_>>(), case.schedule.as_ref().map(Vec::len));
        eprintln!("min: final once -> {:?}", fails_once(&case, &clause).map(|r| r.0.chars().take(100).collect::<String>()));
        eprintln!("min: final once again -> {:?}", fails_once(&case, &clause).map(|r| r.0.chars().take(100).collect::<String>()));
    }
    let mut confirmed = None;
    if let Some((_, sch, _)) = fails(&case, &clause) {
        if case.engine == Engine::Thr {
            if let Some(s) = sch {
                case.schedule = Some(s);
            }
        }
        confirmed = fails_once(&case, &clause);
    }
    if confirmed.is_none() {
        // the minimised form does not fail from its explicit schedule: fall back to the
        // unminimised explicit form (a recording of the failing run); if that does not fail
        // either the run is not a function of the schedule - report as not reproduced
        case = first_explicit;
        confirmed = fails_once(&case, &clause);
    }
    let (d, _, _) = confirmed?;
    let _ = &detail;
    Some(Replay {
        property: case.prop.clone(),
        clause,
        detail: d,
        case,
        known_finding: None,
    })
}
