//! SplitMix64: the only source of randomness in the simulator.

#[derive(Clone, Debug)]
pub struct Rng(pub u64);

pub fn mix(mut z: u64) -> u64 {
    z = z.wrapping_add(0x9E37_79B9_7F4A_7C15);
    z = (z ^ (z >> 30)).wrapping_mul(0xBF58_476D_1CE4_E5B9);
    z = (z ^ (z >> 27)).wrapping_mul(0x94D0_49BB_1331_11EB);
    z ^ (z >> 31)
}

pub fn hash_str(s: &str) -> u64 {
    let mut h = 0xcbf2_9ce4_8422_2325u64;
    for b in s.bytes() {
        h ^= u64::from(b);
        h = h.wrapping_mul(0x0100_0000_01b3);
    }
    h
}

pub fn hash_bytes(h0: u64, s: &[u8]) -> u64 {
    let mut h = h0 ^ 0xcbf2_9ce4_8422_2325u64;
    for b in s {
        h ^= u64::from(*b);
        h = h.wrapping_mul(0x0100_0000_01b3);
    }
    h
}

impl Rng {
    pub fn new(seed: u64) -> Self {
        Self(mix(seed ^ 0xD1B5_4A32_D192_ED03))
    }
    /// Independent stream derived from this seed and a label.
    pub fn stream(seed: u64, label: &str) -> Self {
        Self::new(mix(seed) ^ hash_str(label))
    }
    pub fn next(&mut self) -> u64 {
        self.0 = self.0.wrapping_add(0x9E37_79B9_7F4A_7C15);
        let mut z = self.0;
        z = (z ^ (z >> 30)).wrapping_mul(0xBF58_476D_1CE4_E5B9);
        z = (z ^ (z >> 27)).wrapping_mul(0x94D0_49BB_1331_11EB);
        z ^ (z >> 31)
    }
    /// Uniform in 0..n (n > 0)
    pub fn below(&mut self, n: u64) -> u64 {
        debug_assert!(n > 0);
        self.next() % n
    }
    pub fn range(&mut self, lo: u64, hi_incl: u64) -> u64 {
        lo + self.below(hi_incl - lo + 1)
    }
    pub fn usize(&mut self, n: usize) -> usize {
        self.below(n as u64) as usize
    }
    pub fn chance(&mut self, num: u64, den: u64) -> bool {
        self.below(den) < num
    }
    pub fn pick<'a, T>(&mut self, xs: &'a [T]) -> &'a T {
        &xs[self.usize(xs.len())]
    }
    /// Weighted index
    pub fn weighted(&mut self, w: &[u32]) -> usize {
        let total: u64 = w.iter().map(|x| u64::from(*x)).sum();
        if total == 0 {
            return 0;
        }
        let mut r = self.below(total);
        for (i, x) in w.iter().enumerate() {
            if r < u64::from(*x) {
                return i;
            }
            r -= u64::from(*x);
        }
        w.len() - 1
    }
}
