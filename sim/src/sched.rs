//! THR: the seeded baton scheduler. Real OS threads, but exactly one runs at a time; every
//! hand-over happens at a hook point and the choice comes from the schedule PRNG stream (or
//! from an explicit recorded choice list on replay).

use crate::rng::Rng;
use std::cell::Cell;
use std::sync::{Condvar, Mutex};
use std::time::Duration;

#[derive(Clone, Copy, PartialEq, Eq, Debug)]
enum St {
    Ready,
    Blocked(&'static str),
    Done,
}

pub struct Record {
    pub choices: Vec<u16>,
    pub steps: u64,
    pub switches: u64,
    pub hash: u64,
    /// (seqno, logical thread) in the order seqnos were drawn
    pub commit_order: Vec<(u64, usize)>,
    pub failure: Option<String>,
    pub site_hits: std::collections::BTreeMap<&'static str, u64>,
    pub blocked_yields: u64,
    /// (step, thread, site, payload) of every non-blocked hook event
    pub log: Vec<(u64, usize, &'static str, u64)>,
}

struct Sched {
    threads: Vec<St>,
    current: usize,
    rng: Rng,
    stickiness: u64,
    replay: Option<Vec<u16>>,
    replay_pos: usize,
    choices: Vec<u16>,
    steps: u64,
    switches: u64,
    hash: u64,
    commit_order: Vec<(u64, usize)>,
    failure: Option<String>,
    consecutive_blocked: u64,
    max_steps: u64,
    fair_after: u64,
    site_hits: std::collections::BTreeMap<&'static str, u64>,
    blocked_yields: u64,
    /// starve this thread until the given step
    starve: Option<(usize, u64)>,
    /// long preemption: (thread, until step)
    hold: Option<(usize, u64)>,
    recent: std::collections::VecDeque<(usize, &'static str, bool)>,
    log: Vec<(u64, usize, &'static str, u64)>,
    starve_on_drop: u32,
    drop_spins: u32,
    blocked_picks: u32,
    last_blocked_pick: Option<usize>,
}

static SCHED: Mutex<Option<Sched>> = Mutex::new(None);
static CV: Condvar = Condvar::new();

thread_local! {
    static TID: Cell<Option<(u64, usize)>> = const { Cell::new(None) };
}

/// every scheduled section has its own epoch; threads left over from an earlier section are
/// strangers to the current one
static EPOCH: std::sync::atomic::AtomicU64 = std::sync::atomic::AtomicU64::new(0);

fn epoch() -> u64 {
    EPOCH.load(std::sync::atomic::Ordering::SeqCst)
}

pub fn my_id() -> Option<usize> {
    TID.with(|t| t.get()).and_then(|(e, id)| if e == epoch() { Some(id) } else { None })
}

fn set_id(id: Option<usize>) {
    TID.with(|t| t.set(id.map(|i| (epoch(), i))));
}

/// Starts a scheduled section; the calling thread becomes logical thread 0 and holds the baton.
pub fn begin(seed: u64, stickiness: u8, replay: Option<Vec<u16>>, max_steps: u64) {
    let mut rng = Rng::stream(seed, "schedule");
    let starve = if replay.is_none() && rng.chance(1, 4) {
        Some((1 + rng.usize(3), rng.range(20, 400)))
    } else {
        None
    };
    let s = Sched {
        threads: vec![St::Ready],
        current: 0,
        rng,
        stickiness: u64::from(stickiness),
        replay,
        replay_pos: 0,
        choices: vec![],
        steps: 0,
        switches: 0,
        hash: 0x5eed,
        commit_order: vec![],
        failure: None,
        consecutive_blocked: 0,
        max_steps,
        fair_after: max_steps / 2,
        site_hits: Default::default(),
        blocked_yields: 0,
        starve,
        hold: None,
        recent: Default::default(),
        log: vec![],
        starve_on_drop: 0,
        drop_spins: 0,
        blocked_picks: 0,
        last_blocked_pick: None,
    };
    EPOCH.fetch_add(1, std::sync::atomic::Ordering::SeqCst);
    *SCHED.lock().unwrap() = Some(s);
    set_id(Some(0));
}

/// Ends the scheduled section (only thread 0, after every other thread is Done).
pub fn end() -> Record {
    set_id(None);
    EPOCH.fetch_add(1, std::sync::atomic::Ordering::SeqCst);
    let s = SCHED.lock().unwrap().take().expect("scheduler active");
    Record {
        choices: s.choices,
        steps: s.steps,
        switches: s.switches,
        hash: s.hash,
        commit_order: s.commit_order,
        failure: s.failure,
        site_hits: s.site_hits,
        blocked_yields: s.blocked_yields,
        log: s.log,
    }
}

/// Keep every other thread off the CPU for the first `n` iterations of Database::drop's wait loop
pub fn set_starve_on_drop(n: u32) {
    if let Some(s) = SCHED.lock().unwrap().as_mut() {
        s.starve_on_drop = n;
    }
}

pub fn failure() -> Option<String> {
    SCHED.lock().unwrap().as_ref().and_then(|s| s.failure.clone())
}

pub fn steps() -> u64 {
    SCHED.lock().unwrap().as_ref().map_or(0, |s| s.steps)
}

pub fn live_threads() -> usize {
    SCHED
        .lock()
        .unwrap()
        .as_ref()
        .map_or(0, |s| s.threads.iter().filter(|t| **t != St::Done).count())
}

pub fn is_done(id: usize) -> bool {
    SCHED
        .lock()
        .unwrap()
        .as_ref()
        .is_none_or(|s| s.threads.get(id).is_none_or(|t| *t == St::Done))
}

impl Sched {
    fn pick(&mut self, me: usize, me_blocked: bool) -> usize {
        let live: Vec<usize> = (0..self.threads.len())
            .filter(|i| self.threads[*i] != St::Done)
            .collect();
        if live.is_empty() {
            return me;
        }
        let choice = if let Some(r) = &self.replay {
            let c = r.get(self.replay_pos).map(|c| *c as usize);
            self.replay_pos += 1;
            match c {
                Some(c) if live.contains(&c) => c,
                // schedule exhausted or no longer applicable (minimised program): stay on the
                // current thread when possible, else lowest live id: deterministic either way
                _ => {
                    if !me_blocked && live.contains(&me) {
                        me
                    } else {
                        let others: Vec<usize> = live.iter().copied().filter(|i| *i != me).collect();
                        if others.is_empty() {
                            me
                        } else {
                            others[(self.steps as usize) % others.len()]
                        }
                    }
                }
            }
        } else {
            let mut cands = live.clone();
            // long preemption: now and then the running thread loses the CPU for many steps at
            // the very point where it is, so that other threads complete whole operations inside
            // whatever window it has open (between a check and a lock, a draw and a publish, ...)
            if self.hold.is_none() && !me_blocked && live.len() > 1 && self.rng.below(30) == 0 {
                self.hold = Some((me, self.steps + self.rng.range(6, 150)));
            }
            if let Some((v, until)) = self.hold {
                if self.steps >= until || self.threads[v] == St::Done {
                    self.hold = None;
                } else if cands.iter().any(|i| *i != v && (self.threads[*i] == St::Ready && !(*i == me && me_blocked))) {
                    cands.retain(|i| *i != v);
                } else {
                    // everybody else waits (probably for something the held thread owns)
                    self.hold = None;
                }
            }
            // a blocked thread usually lets the others run first - but not always (a spinning
            // thread on a real machine can get several turns in a row)
            if me_blocked && cands.len() > 1 && self.rng.below(6) != 0 {
                cands.retain(|i| *i != me);
            }
            if let Some((victim, until)) = self.starve {
                if self.steps < until && cands.len() > 1 {
                    cands.retain(|i| *i != victim);
                }
            }
            // prefer threads that are not known to be blocked, most of the time
            let ready: Vec<usize> = cands
                .iter()
                .copied()
                .filter(|i| self.threads[*i] == St::Ready)
                .collect();
            if self.steps > self.fair_after {
                // fair phase: round robin over live threads
                let pos = live.iter().position(|i| *i == me).unwrap_or(0);
                live[(pos + 1) % live.len()]
            } else if !me_blocked
                && self.threads[me] == St::Ready
                && cands.contains(&me)
                && self.rng.below(100) < self.stickiness
            {
                me
            } else if !ready.is_empty() && self.rng.below(8) != 0 {
                ready[self.rng.usize(ready.len())]
            } else {
                cands[self.rng.usize(cands.len())]
            }
        };
        // weak fairness, whatever produced the choice (PRNG, replayed list, minimiser): a thread
        // that is (believed to be) blocked is not chosen over and over while other threads wait;
        // "blocked" labels can be stale, so after a few consecutive picks of the same blocked
        // thread the other live threads get a turn in round-robin order. Without this an unfair
        // schedule would be reported as "no progress".
        let mut choice = choice;
        if matches!(self.threads[choice], St::Blocked(_)) || (choice == me && me_blocked) {
            if self.last_blocked_pick == Some(choice) {
                self.blocked_picks += 1;
            } else {
                self.last_blocked_pick = Some(choice);
                self.blocked_picks = 1;
            }
            if self.blocked_picks > 3 && live.len() > 1 {
                let pos = live.iter().position(|i| *i == choice).unwrap_or(0);
                choice = live[(pos + 1) % live.len()];
                self.last_blocked_pick = Some(choice);
                self.blocked_picks = 1;
            }
        } else {
            self.last_blocked_pick = None;
            self.blocked_picks = 0;
        }
        self.choices.push(choice as u16);
        choice
    }
}

fn switch_from(me: usize, site: &'static str, payload: u64, blocked: bool) {
    let mut g = SCHED.lock().unwrap();
    let Some(s) = g.as_mut() else { return };
    if s.failure.is_some() {
        // the run is being torn down: let everybody run freely
        return;
    }
    s.steps += 1;
    if !blocked && s.log.len() < 50_000 {
        s.log.push((s.steps, me, site, payload));
    }
    s.recent.push_back((me, site, blocked));
    if s.recent.len() > 30 {
        s.recent.pop_front();
    }
    *s.site_hits.entry(site).or_insert(0) += 1;
    s.hash = crate::rng::mix(s.hash ^ (me as u64) ^ crate::rng::hash_str(site) ^ payload.rotate_left(17));
    if site.ends_with("_seqno") {
        s.commit_order.push((payload, me));
    }
    if (site == "db_drop_wait" || site == "close_channel") && s.drop_spins < s.starve_on_drop && s.replay.is_none() && !(site == "close_channel" && blocked) {
        // a loaded machine: the dropping thread spins, nobody else gets the CPU
        if site == "db_drop_wait" {
            s.drop_spins += 1;
        }
        s.choices.push(me as u16);
        return;
    }
    if blocked {
        s.threads[me] = St::Blocked(site);
        s.blocked_yields += 1;
        s.consecutive_blocked += 1;
    } else {
        s.threads[me] = St::Ready;
        s.consecutive_blocked = 0;
    }
    let live = s.threads.iter().filter(|t| **t != St::Done).count() as u64;
    if s.consecutive_blocked > 250 * live.max(1) {
        let desc: Vec<String> = s
            .threads
            .iter()
            .enumerate()
            .map(|(i, t)| format!("t{i}:{t:?}"))
            .collect();
        let tr: Vec<String> = s.recent.iter().map(|(t, site, b)| format!("t{t}:{site}{}", if *b { "(b)" } else { "" })).collect();
        s.failure = Some(format!("no-progress: every live thread is blocked: {} || last events: {}", desc.join(" "), tr.join(" ")));
        CV.notify_all();
        return;
    }
    if s.steps > s.max_steps {
        s.failure = Some(format!("step budget of {} exceeded", s.max_steps));
        CV.notify_all();
        return;
    }
    let next = s.pick(me, blocked);
    if next != me {
        s.switches += 1;
        s.current = next;
        CV.notify_all();
        let mut waited = 0u32;
        loop {
            let (ng, to) = CV.wait_timeout(g, Duration::from_secs(5)).unwrap();
            g = ng;
            let Some(s) = g.as_mut() else { return };
            if s.current == me || s.failure.is_some() {
                break;
            }
            if to.timed_out() {
                waited += 1;
                if waited >= 12 {
                    let tr: Vec<String> = s.recent.iter().map(|(t, site, b)| format!("t{t}:{site}{}", if *b { "(blocked)" } else { "" })).collect();
                    s.failure = Some(format!("harness: baton lost (thread {} never yielded); states {:?}; last events: {}", s.current, s.threads, tr.join(" ")));
                    CV.notify_all();
                    break;
                }
            }
        }
    }
    if let Some(s) = g.as_mut() {
        if s.threads[me] != St::Done {
            s.threads[me] = St::Ready;
        }
    }
}

pub fn yield_point(site: &'static str, payload: u64) {
    if let Some(me) = my_id() {
        switch_from(me, site, payload, false);
    }
}

pub fn lock_probe(site: &'static str, probe: &mut dyn FnMut() -> bool) {
    let Some(me) = my_id() else { return };
    // a scheduling point before every lock acquisition
    switch_from(me, site, 0, false);
    loop {
        if probe() {
            return;
        }
        if let Some(f) = failure() {
            if site == "close_channel" {
                // the real send would block in the kernel forever: unwind out of the drop
                panic!("fjsim: abandoned Database drop (close message cannot be sent): {f}");
            }
            return;
        }
        switch_from(me, site, 1, true);
    }
}

pub fn stall(site: &'static str) -> bool {
    let Some(me) = my_id() else { return false };
    if let Some(f) = failure() {
        if site == "db_drop_wait" {
            // fjall's drop loop would spin (and eventually block in a channel send) forever;
            // unwind out of it so that the run can be reported
            panic!("fjsim: abandoned Database drop wait loop: {f}");
        }
        return false;
    }
    switch_from(me, site, 0, true);
    true
}

/// Blocks (by yielding) until `cond` holds; used by the harness for joins.
pub fn wait_until(site: &'static str, mut cond: impl FnMut() -> bool) {
    let Some(me) = my_id() else { return };
    while !cond() {
        if failure().is_some() {
            return;
        }
        switch_from(me, site, 0, true);
    }
}

thread_local! {
    /// token handed out by `spawn_token` on this thread and not yet bound to a new OS thread
    static PENDING: Cell<(u64, u64)> = const { Cell::new((0, 0)) };
}

fn new_token() -> u64 {
    let mut g = SCHED.lock().unwrap();
    match g.as_mut() {
        Some(s) if my_id().is_some() => {
            s.threads.push(St::Ready);
            s.threads.len() as u64 // id + 1
        }
        _ => 0,
    }
}

/// Hook in the code under test / harness, called right before it spawns a thread.
pub fn spawn_token() -> u64 {
    let t = new_token();
    PENDING.with(|p| p.set((epoch(), t)));
    t
}

/// Called by the interposed `pthread_create`: the token the spawning code announced, or a fresh
/// one if the code spawns without announcing (0 = the creator is not scheduler-controlled).
pub fn token_for_new_thread() -> u64 {
    let (e, t) = PENDING.with(|p| p.replace((0, 0)));
    if t != 0 && e == epoch() {
        return t;
    }
    new_token()
}

pub fn thread_never_started(token: u64) {
    let mut g = SCHED.lock().unwrap();
    if let Some(s) = g.as_mut() {
        if let Some(t) = s.threads.get_mut((token - 1) as usize) {
            *t = St::Done;
        }
    }
}

pub fn thread_enter(token: u64) {
    if token == 0 || my_id().is_some() {
        return;
    }
    let me = (token - 1) as usize;
    set_id(Some(me));
    let mut g = SCHED.lock().unwrap();
    loop {
        let Some(s) = g.as_mut() else { return };
        if s.current == me || s.failure.is_some() {
            return;
        }
        let (ng, _) = CV.wait_timeout(g, Duration::from_secs(5)).unwrap();
        g = ng;
    }
}

pub fn thread_exit() {
    let Some(me) = my_id() else { return };
    set_id(None);
    let mut g = SCHED.lock().unwrap();
    let Some(s) = g.as_mut() else { return };
    s.threads[me] = St::Done;
    s.steps += 1;
    s.hash = crate::rng::mix(s.hash ^ (me as u64) ^ 0xd0e);
    if s.failure.is_some() {
        CV.notify_all();
        return;
    }
    let next = s.pick(me, true);
    s.current = next;
    CV.notify_all();
}

/// Spawns a scheduler-controlled harness thread.
pub fn spawn<F: FnOnce() + Send + 'static>(f: F) -> (usize, std::thread::JoinHandle<()>) {
    let token = spawn_token();
    let id = (token - 1) as usize;
    let h = std::thread::Builder::new()
        .name(format!("fjsim:client{id}"))
        .spawn(move || {
            thread_enter(token);
            let r = std::panic::catch_unwind(std::panic::AssertUnwindSafe(f));
            if let Err(e) = r {
                let msg = e
                    .downcast_ref::<String>()
                    .cloned()
                    .or_else(|| e.downcast_ref::<&str>().map(|s| s.to_string()))
                    .unwrap_or_else(|| "panic".into());
                let mut g = SCHED.lock().unwrap();
                if let Some(s) = g.as_mut() {
                    if s.failure.is_none() {
                        s.failure = Some(format!("panic in client thread: {msg}"));
                    }
                }
            }
            thread_exit();
        })
        .expect("spawn");
    (id, h)
}

/// One-line description of the scheduler state (who is where), for hang reports. Uses try_lock:
/// the state may be held by a stuck thread.
pub fn describe() -> String {
    match SCHED.try_lock() {
        Ok(g) => match g.as_ref() {
            Some(s) => {
                let st: Vec<String> = s.threads.iter().enumerate().map(|(i, t)| format!("t{i}:{t:?}")).collect();
                let ev: Vec<String> = s.recent.iter().rev().take(8).map(|(t, site, b)| format!("t{t}:{site}{}", if *b { "(b)" } else { "" })).collect();
                format!("current=t{} {} || last events (newest first): {}", s.current, st.join(" "), ev.join(" "))
            }
            None => "inactive".into(),
        },
        Err(_) => "state locked".into(),
    }
}
