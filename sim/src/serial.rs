//! Brute-force serialisability checker (C07): is there a total order of the committed
//! transactions, consistent with real time, under which every recorded read and the final state
//! are reproduced?

use crate::exec::TxRecord;
use crate::model::*;
use std::collections::HashSet;

pub struct SerialResult {
    pub ok: bool,
    pub explored: u64,
    pub explanation: String,
}

/// `initial` = state before the first transaction began; `final_state` = observed final content.
pub fn check(
    initial: &State,
    txs: &[TxRecord],
    keys: &[Vec<u8>],
    final_state: &State,
) -> SerialResult {
    let committed: Vec<&TxRecord> = txs.iter().filter(|t| t.committed == Some(true)).collect();
    let n = committed.len();
    if n > 12 {
        return SerialResult {
            ok: true,
            explored: 0,
            explanation: "skipped: too many transactions".into(),
        };
    }
    let mut explored = 0u64;
    let mut dead: HashSet<(u32, u64)> = HashSet::new();
    let mut best = String::new();

    fn rec(
        placed: u32,
        st: &State,
        committed: &[&TxRecord],
        keys: &[Vec<u8>],
        final_state: &State,
        explored: &mut u64,
        dead: &mut HashSet<(u32, u64)>,
        best: &mut String,
    ) -> bool {
        let n = committed.len();
        if placed.count_ones() as usize == n {
            if st == final_state {
                return true;
            }
            *best = format!("an order reproduces all reads but ends in {} instead of observed {}", st.brief(), final_state.brief());
            return false;
        }
        let key = (placed, st.digest());
        if dead.contains(&key) {
            return false;
        }
        for i in 0..n {
            if placed & (1 << i) != 0 {
                continue;
            }
            // real time: every tx that ended before this one began must already be placed
            let t = committed[i];
            let mut ok = true;
            for (j, o) in committed.iter().enumerate() {
                if j != i && placed & (1 << j) == 0 && o.end < t.begin {
                    ok = false;
                    break;
                }
            }
            if !ok {
                continue;
            }
            *explored += 1;
            // execute t serially on st
            let mut m = TxModel::new(st.clone());
            let mut reads_ok = true;
            for (op, res) in t.ops.iter().zip(t.results.iter()) {
                let want = m.exec(keys, op);
                if &want != res {
                    reads_ok = false;
                    if best.is_empty() {
                        *best = format!("tx(begin@{},end@{}) op {:?} observed {} but serial execution gives {}", t.begin, t.end, op, res.brief(), want.brief());
                    }
                    break;
                }
            }
            if !reads_ok {
                continue;
            }
            let mut next = st.clone();
            m.apply_to(&mut next);
            if rec(placed | (1 << i), &next, committed, keys, final_state, explored, dead, best) {
                return true;
            }
        }
        dead.insert(key);
        false
    }

    let ok = rec(0, initial, &committed, keys, final_state, &mut explored, &mut dead, &mut best);
    SerialResult {
        ok,
        explored,
        explanation: if ok { String::new() } else { best },
    }
}
