//! The hook table installed into `fjall::verif`. Dispatches to the SEQ behaviour (perform
//! background work on the caller's thread when fjall would wait for a worker) or to the THR
//! baton scheduler.

use std::sync::atomic::{AtomicU64, AtomicU8, Ordering};
use std::sync::Mutex;

pub const MODE_OFF: u8 = 0;
pub const MODE_SEQ: u8 = 1;
pub const MODE_THR: u8 = 2;

static MODE: AtomicU8 = AtomicU8::new(MODE_OFF);
static SEQ_DB: Mutex<Option<fjall::Database>> = Mutex::new(None);
static ROTATION_THRESHOLD: AtomicU64 = AtomicU64::new(64_000_000);
pub static STALL_STEPS: AtomicU64 = AtomicU64::new(0);
pub static STALL_LIVELOCK: AtomicU64 = AtomicU64::new(0);

pub fn set_mode(m: u8) {
    MODE.store(m, Ordering::SeqCst);
}

pub fn mode() -> u8 {
    MODE.load(Ordering::SeqCst)
}

pub fn set_seq_db(db: Option<fjall::Database>) {
    *SEQ_DB.lock().unwrap() = db;
}

/// Installs `db` as the database whose queued background work the SEQ stall hook performs, and
/// returns the previous one (follow-up writes on a recovered copy of the directory)
pub fn swap_seq_db(db: Option<fjall::Database>) -> Option<fjall::Database> {
    std::mem::replace(&mut *SEQ_DB.lock().unwrap(), db)
}

pub fn set_rotation_threshold(t: u64) {
    ROTATION_THRESHOLD.store(if t == 0 { 64_000_000 } else { t }, Ordering::SeqCst);
}

fn yield_point(site: &'static str, payload: u64) {
    if mode() == MODE_THR {
        crate::sched::yield_point(site, payload);
    }
}

fn lock_probe(site: &'static str, probe: &mut dyn FnMut() -> bool) {
    if mode() == MODE_THR {
        crate::sched::lock_probe(site, probe);
    }
}

fn stall(site: &'static str) -> bool {
    match mode() {
        MODE_SEQ => match site {
            "write_halt_sealed" | "write_halt_l0" => {
                // what a real worker would be doing meanwhile
                let db = SEQ_DB.lock().unwrap().clone();
                let Some(db) = db else { return false };
                STALL_STEPS.fetch_add(1, Ordering::Relaxed);
                match fjall::verif::worker_step(&db) {
                    Ok(Some(_)) => true,
                    Ok(None) | Err(_) => {
                        // nothing queued: fjall would wait forever for a worker that has nothing
                        // to do; record and fall back to the real sleep a bounded number of times
                        let n = STALL_LIVELOCK.fetch_add(1, Ordering::Relaxed);
                        if n > 50 {
                            panic!("fjsim: write stall at {site} with empty worker queue");
                        }
                        true
                    }
                }
            }
            "lock_retry" => true,
            _ => false,
        },
        MODE_THR => crate::sched::stall(site),
        _ => false,
    }
}

fn spawn_token() -> u64 {
    if mode() == MODE_THR {
        crate::sched::spawn_token()
    } else {
        0
    }
}

fn thread_enter(token: u64) {
    if mode() == MODE_THR {
        crate::sched::thread_enter(token);
    }
}

fn thread_exit() {
    if mode() == MODE_THR {
        crate::sched::thread_exit();
    }
}

fn journal_rotation_threshold() -> u64 {
    ROTATION_THRESHOLD.load(Ordering::Relaxed)
}

pub fn install() {
    fjall::verif::install(fjall::verif::Hooks {
        yield_point,
        lock_probe,
        stall,
        spawn_token,
        thread_enter,
        thread_exit,
        journal_rotation_threshold,
    });
}
