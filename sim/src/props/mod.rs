//! One scenario family per property: generator (seed -> explicit Case) and runner (Case -> Outcome).

use crate::case::*;
use crate::exec::{Exec, Stats, Violation};
use crate::gen::Tier;
use std::path::PathBuf;

pub mod crashprops;
pub mod ioprops;
pub mod seqprops;
pub mod thrprops;

pub struct Outcome {
    pub violation: Option<Violation>,
    pub stats: Stats,
    /// hash of everything observable about the run (determinism check)
    pub hash: u64,
    /// number of checked states / sub-evaluations in this case (>= 1)
    pub evals: u64,
    /// shape hash for distinctness counting
    pub shape: u64,
    pub nontrivial: bool,
    pub harness_error: Option<String>,
    /// recorded schedule (THR)
    pub schedule: Option<Vec<u16>>,
    /// the fault plan narrowed to the failing point (sweeps)
    pub narrowed: Option<Fault>,
}

impl Outcome {
    pub fn ok(stats: Stats, hash: u64) -> Self {
        Self {
            violation: None,
            stats,
            hash,
            evals: 1,
            shape: 0,
            nontrivial: false,
            harness_error: None,
            schedule: None,
            narrowed: None,
        }
    }
}

pub const ALL_PROPS: &[&str] = &[
    "C01", "C02", "C03", "C04", "C05", "C06", "C07", "C08", "C09", "C10", "C11", "C12", "C13", "C14",
    "C15", "C16", "C17", "C18",
];

/// Number of cases per tier
pub fn budget(prop: &str, tier: Tier) -> u64 {
    let q = match prop {
        "C01" => 40000,
        "C04" => 20000,
        "C11" => 20000,
        "C12" => 24000,
        "C16" => 30000,
        "C05" => 24000,
        "C07" | "C08" => 25000,
        "C18" => 20000,
        "C02" => 700,
        "C09" => 1600,
        "C10" => 3000,
        "C13" => 1600,
        "C03" => 120,
        "C15" => 64,
        "C17" => 3000,
        "C14" => 3000,
        "C06" => 3000,
        _ => 1000,
    };
    match tier {
        Tier::Quick => q,
        Tier::Thorough => q * 20,
    }
}

pub fn gen_case(prop: &str, tier: Tier, seed: u64) -> Case {
    match prop {
        "C01" => seqprops::gen_c01(tier, seed),
        "C04" if seed % 8 == 0 => thrprops::gen_c04t(tier, seed),
        "C04" => seqprops::gen_c04(tier, seed),
        // every 4th case of these families is a THR (scheduled threads) case
        "C05" if seed % 4 == 0 => thrprops::gen_c05t(tier, seed),
        "C07" if seed % 4 == 0 => thrprops::gen_c07t(tier, seed),
        "C08" if seed % 4 == 0 => thrprops::gen_c08t(tier, seed),
        "C05" => seqprops::gen_c05(tier, seed),
        "C07" => seqprops::gen_c07(tier, seed),
        "C08" => seqprops::gen_c08(tier, seed),
        "C14" if seed % 5 == 0 => thrprops::gen_c10t(tier, seed, "C14"),
        "C14" => thrprops::gen_c14(tier, seed),
        "C06" => thrprops::gen_c06(tier, seed),
        "C11" if seed % 48 == 0 => {
            // "following any reopen (clean OR AFTER A CRASH)": the C02 workloads, every crash state
            // continued (overwrite / remove / add / batch, close, reopen)
            let mut c = crashprops::gen_c02(tier, seed);
            if c.class.contains("many-journals") {
                // (hundreds of crash states with a dozen journals each, all continued: too slow
                // for this family; C02 and C04 carry that prelude)
                return seqprops::gen_c11(tier, seed);
            }
            c.prop = "C11".into();
            c.class = format!("crash-{}", c.class);
            c
        }
        "C11" if seed % 32 == 1 => seqprops::gen_c11_sealed_clear(tier, seed),
        "C11" => seqprops::gen_c11(tier, seed),
        "C12" if seed % 64 == 1 => ioprops::gen_delete_fault(tier, seed, "C12"),
        "C12" if seed % 8 == 0 => thrprops::gen_c12t(tier, seed),
        "C12" => seqprops::gen_c12(tier, seed),
        "C16" if seed % 8 == 0 => thrprops::gen_c16t(tier, seed),
        "C16" => seqprops::gen_c16(tier, seed),
        "C18" => seqprops::gen_c18(tier, seed),
        "C02" => crashprops::gen_c02(tier, seed),
        "C09" if seed % 4 == 0 => thrprops::gen_c09t(tier, seed),
        "C09" => crashprops::gen_c09(tier, seed),
        "C10" if seed % 16 == 1 => ioprops::gen_delete_fault(tier, seed, "C10"),
        "C10" if seed % 4 == 0 => thrprops::gen_c10t(tier, seed, "C10"),
        "C10" => crashprops::gen_c10(tier, seed),
        "C13" if seed % 3 == 0 => thrprops::gen_c13t(tier, seed),
        "C13" => crashprops::gen_c13(tier, seed),
        "C03" => ioprops::gen_c03(tier, seed),
        "C15" => ioprops::gen_c15(tier, seed),
        "C17" if seed % 4 == 0 => thrprops::gen_c17t(tier, seed),
        "C17" => ioprops::gen_c17(tier, seed),
        _ => panic!("unknown property {prop}"),
    }
}

pub fn run_case(case: &Case, dir: PathBuf) -> Outcome {
    if case.engine == Engine::Thr {
        return crate::thr::run_thr(case, dir);
    }
    match case.prop.as_str() {
        "C11" if matches!(case.fault, Fault::Crash { .. }) => crashprops::run_faulty(case, dir),
        "C10" | "C12" if matches!(case.fault, Fault::Io { .. }) => ioprops::run_delete_fault(case, dir),
        "C01" | "C04" | "C05" | "C07" | "C08" | "C11" | "C12" | "C16" | "C18" => seqprops::run_seq(case, dir),
        "C02" | "C09" | "C10" => crashprops::run_faulty(case, dir),
        "C13" => ioprops::run_io(case, dir),
        "C03" => ioprops::run_cuts(case, dir),
        "C15" => ioprops::run_damage(case, dir),
        "C17" => ioprops::run_c17(case, dir),
        p => panic!("fjsim: unknown property {p}"),
    }
}

/// Hash of the program shape (op kinds and maintenance placement), for distinctness counting
pub fn shape_hash(case: &Case) -> u64 {
    let mut h = crate::rng::hash_str(&case.class);
    for op in case.program.iter().chain(case.threads.iter().flatten()) {
        let tag = format!("{op:?}");
        let kind = tag.split([' ', '{', '(']).next().unwrap_or("");
        h = crate::rng::mix(h ^ crate::rng::hash_str(kind));
        match op {
            Op::Insert { ks, key, .. } | Op::Remove { ks, key } => {
                h = crate::rng::mix(h ^ (u64::from(*ks) << 8) ^ u64::from(*key));
            }
            Op::Rotate { ks } | Op::MajorCompact { ks } | Op::Clear { ks } => {
                h = crate::rng::mix(h ^ u64::from(*ks));
            }
            _ => {}
        }
    }
    h
}

pub fn finish_exec(ex: &mut Exec) {
    ex.close();
}
