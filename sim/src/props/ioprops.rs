//! C13 (I/O errors, every n), C03 (journal cuts at every byte), C15 (round trip + byte damage),
//! C17 (single instance, version marker).

use super::*;
use crate::faults::{self, Mon, SharedMon};
use crate::gen::{Mix, Tier, G};
use crate::model::State;
use crate::rng::Rng;
use std::path::Path;

// ------------------------------------------------------------------------------------- C13

struct IoRun {
    violation: Option<Violation>,
    stats: crate::exec::Stats,
    seen: u32,
    fired: bool,
    hash: u64,
}

fn is_guarded_write(op: &Op) -> bool {
    matches!(
        op,
        Op::Insert { .. }
            | Op::Remove { .. }
            | Op::RemoveWeak { .. }
            | Op::Batch { .. }
            | Op::Clear { .. }
            | Op::TxKsInsert { .. }
            | Op::TxKsRemove { .. }
            | Op::TxKsTake { .. }
            | Op::TxKsFetchUpdate { .. }
            | Op::TxKsUpdateFetch { .. }
            | Op::TxEnd { end: TxEnd::Commit, .. }
            | Op::Persist { .. }
    )
}

fn run_io_once(case: &Case, dir: &Path, fault: Fault) -> IoRun {
    let live = dir.join("live");
    let scratch = dir.join("scratch");
    crate::interpose::bypass(|| std::fs::create_dir_all(&scratch).ok());
    let mon: SharedMon = Mon::new(&live, &scratch, fault.clone(), case.seed);
    faults::install(&mon);
    let mut ex = Exec::new(&case.cfg, live.clone());
    ex.tolerate_errors = true;
    let mut violation = None;
    let mut stats = crate::exec::Stats::default();
    // acked count when the first failure was reported, and the state the failed op would give
    let mut failure: Option<(usize, Option<State>, usize)> = None;
    let mut write_failure: Option<(usize, State, usize)> = None;
    let mut background_failure = false;
    let transient_short = matches!(fault, Fault::Io { kind: IoKind::Short(_), persistent: false, .. });
    // programs of the "recovered" classes start with a write and a reopen: faults are armed only
    // afterwards (fail-stop is a statement about ONE database instance)
    let arm_from = case.program.iter().position(|o| matches!(o, Op::Reopen)).map_or(0, |p| p + 1);
    if let Err(v) = ex.open() {
        violation = Some(v);
    } else {
        for (i, op) in case.program.iter().enumerate() {
            if i < arm_from {
                if let Err(v) = ex.step(i, op) {
                    violation = Some(v);
                    break;
                }
                continue;
            }
            let fired_before = mon.lock().unwrap().io.fired_at_call.is_some();
            mon.lock().unwrap().enabled = true;
            let r = ex.step(i, op);
            mon.lock().unwrap().enabled = false;
            let fired_now = mon.lock().unwrap().io.fired_at_call.is_some() && !fired_before;
            let info = match r {
                Ok(info) => info,
                Err(mut v) => {
                    // model mismatches on reads are still violations, whatever faults flow
                    v.detail = format!("under I/O fault: {}", v.detail);
                    violation = Some(v);
                    break;
                }
            };
            if fired_now {
                stats.inc("io_fault_fired");
                let desc = mon.lock().unwrap().io.fired_desc.clone();
                if is_guarded_write(op) {
                    if info.failed.is_none() && !transient_short {
                        violation = Some(Violation::new(
                            "io-error-not-reported",
                            format!("op #{i} {op:?} was acknowledged although the injected {desc} happened inside it"),
                        ));
                        break;
                    }
                } else if info.failed.is_some() {
                    background_failure = true;
                    stats.inc("io_fault_in_background_op");
                } else {
                    // the fault hit an op that swallows journal errors by design (drop)
                    stats.inc("io_fault_in_unguarded_op");
                    background_failure = true;
                }
            }
            if let Some(e) = &info.failed {
                if failure.is_none() && mon.lock().unwrap().io.fired_at_call.is_some() {
                    failure = Some((ex.acked(), info.failed_state.clone(), i));
                    stats.inc("failure_reported");
                    let _ = e;
                }
                if write_failure.is_none() && is_guarded_write(op) && info.failed_state.is_some() {
                    // the first failing write may sit complete in the user-space buffer and be
                    // written out by the drop-time persist
                    write_failure = Some((ex.acked(), info.failed_state.clone().unwrap(), i));
                }
            } else if info.acked && is_guarded_write(op) {
                if let Some((_, _, at)) = &failure {
                    if !background_failure {
                        violation = Some(Violation::new(
                            "write-acknowledged-after-failure",
                            format!("op #{i} {op:?} was acknowledged although op #{at} had reported a journal I/O failure on this instance"),
                        ));
                        break;
                    }
                }
            }
            if matches!(op, Op::Persist { .. }) && info.failed.is_none() {
                if let Some((_, _, at)) = &failure {
                    if !background_failure && *at != i {
                        violation = Some(Violation::new(
                            "write-acknowledged-after-failure",
                            format!("persist (op #{i}) succeeded although op #{at} had reported a journal I/O failure on this instance"),
                        ));
                        break;
                    }
                }
            }
        }
    }
    // (3) drop with faults off, reopen: acknowledged prefix, failed op all-or-nothing
    let acked_final = ex.acked();
    let hist = ex.history.clone();
    mon.lock().unwrap().enabled = false;
    ex.close();
    faults::uninstall();
    if violation.is_none() {
        let res = std::panic::catch_unwind(std::panic::AssertUnwindSafe(|| faults::read_dir_state(&live, &case.cfg)));
        match res {
            Ok(Ok(real)) => {
                stats.inc("reopen_after_fault_checked");
                let mut allowed: Vec<State> = vec![hist[acked_final].clone()];
                if let Some((k, would, _)) = &write_failure {
                    // the failed op may have been persisted wholly (never partially)
                    if acked_final == *k {
                        allowed.push(would.clone());
                    }
                }
                if !allowed.iter().any(|s| faults::state_maps(s) == real) {
                    violation = Some(Violation::new(
                        "reopen-after-failure",
                        format!(
                            "after the injected fault ({}) reopening shows {} but the acknowledged state is {}{}",
                            mon.lock().unwrap().io.fired_desc,
                            faults::brief_maps(&real),
                            hist[acked_final].brief(),
                            match &write_failure {
                                Some((_, w, at)) => format!(" (or with failed op #{at} applied wholly: {})", w.brief()),
                                _ => String::new(),
                            }
                        ),
                    ));
                }
            }
            Ok(Err(e)) => {
                violation = Some(Violation::new("reopen-after-failure", format!("after the injected fault ({}) reopening fails: {e}", mon.lock().unwrap().io.fired_desc)));
            }
            Err(_) => {
                let (loc, msg) = crate::LAST_PANIC.lock().unwrap().clone().unwrap_or_default();
                violation = Some(Violation::new("reopen-after-failure", format!("after the injected fault reopening panics at {loc}: {msg}")));
            }
        }
    }
    let m = mon.lock().unwrap();
    stats.merge(&m.stats);
    stats.merge(&ex.stats);
    IoRun {
        violation,
        stats,
        seen: m.io.seen,
        fired: m.io.fired_at_call.is_some(),
        hash: crate::rng::mix(m.hash ^ u64::from(m.calls) ^ hist[acked_final].digest()),
    }
}

pub fn run_io(case: &Case, dir: PathBuf) -> Outcome {
    crate::hooks::set_mode(crate::hooks::MODE_SEQ);
    crate::hooks::set_rotation_threshold(case.cfg.rotation_threshold);
    let Fault::Io { kind, target, n, persistent } = case.fault.clone() else {
        let mut o = Outcome::ok(Default::default(), 0);
        o.harness_error = Some("C13 case without Io fault".into());
        return o;
    };
    let mut stats = crate::exec::Stats::default();
    let mut hash = 0u64;
    let mut evals = 0u64;
    let mut violation = None;
    let mut narrowed = None;
    let mut fired_any = false;
    let ns: Vec<u32> = match n {
        Some(k) => vec![k],
        None => {
            // baseline: count the matching calls without injecting anything
            let base = run_io_once(case, &dir.join("base"), Fault::Io { kind: kind.clone(), target: target.clone(), n: Some(u32::MAX), persistent });
            crate::fsutil::remove_tree(&dir.join("base"));
            hash = base.hash;
            if let Some(v) = base.violation {
                let mut o = Outcome::ok(base.stats, hash);
                o.violation = Some(v);
                return o;
            }
            stats.add("io_matching_calls", u64::from(base.seen));
            let total = base.seen.min(48);
            (1..=total).collect()
        }
    };
    for k in ns {
        let f = Fault::Io { kind: kind.clone(), target: target.clone(), n: Some(k), persistent };
        let sub = dir.join(format!("n{k}"));
        let r = run_io_once(case, &sub, f.clone());
        crate::fsutil::remove_tree(&sub);
        evals += 1;
        stats.merge(&r.stats);
        hash = crate::rng::mix(hash ^ r.hash);
        fired_any |= r.fired;
        if let Some(mut v) = r.violation {
            v.detail = format!("fault at matching call #{k}: {}", v.detail);
            violation = Some(v);
            narrowed = Some(f);
            break;
        }
    }
    let mut o = Outcome::ok(stats, hash);
    o.violation = violation;
    o.narrowed = narrowed;
    o.evals = evals.max(1);
    o.shape = shape_hash(case);
    o.nontrivial = fired_any;
    o
}

// ------------------------------------------------------------------- failed keyspace deletion

/// C10 / C12: `delete_keyspace` hits an I/O error while it writes the deletion into the meta
/// keyspace. The call reports the error and NOTHING has changed: the name still exists, handles
/// keep working, opening the name returns the same keyspace, its unflushed writes keep their
/// sealed journal, and all of that is still so after a reopen.
pub fn gen_delete_fault(tier: Tier, seed: u64, prop: &str) -> Case {
    let mut r = Rng::stream(seed, "workload");
    let n_keys = r.range(2, 4) as usize;
    let mut g = G::new(&mut r, 2, n_keys, DbKind::Plain, false);
    g.cfg.check_every = 0;
    g.cfg.rotation_threshold = *g.r.pick(&[512u64, 1024]);
    g.cfg.journal_lz4 = false;
    for o in &mut g.cfg.opts {
        o.max_memtable = 0;
        o.blob = None;
    }
    let victim: u8 = g.r.below(2) as u8;
    let other = 1 - victim;
    let mut program = g.create_initial(2);
    // the victim gets unflushed writes, the other keyspace fills and flushes so that a sealed
    // journal holding the victim's writes exists
    for _ in 0..g.r.range(1, 3) {
        let v = g.val_sized(8, true);
        program.push(Op::Insert { ks: victim, key: g.key(), val: v });
    }
    for _ in 0..g.r.range(1, 2) {
        let v = g.val_sized(700, false);
        program.push(Op::Insert { ks: other, key: g.key(), val: v });
        program.push(Op::Rotate { ks: other });
        program.push(Op::WorkerStep);
    }
    program.push(Op::DeleteKs { ks: victim });
    program.push(Op::Check);
    // life goes on (if the deletion failed the victim is still there; if not, these are skipped)
    let v = g.val_sized(8, true);
    program.push(Op::Insert { ks: victim, key: g.key(), val: v });
    program.push(Op::CreateKs { ks: victim });
    for _ in 0..g.r.range(1, 2) {
        let v = g.val_sized(700, false);
        program.push(Op::Insert { ks: other, key: g.key(), val: v });
        program.push(Op::Rotate { ks: other });
        program.push(Op::WorkerStep);
        program.push(Op::WorkerStep);
    }
    program.push(Op::Check);
    let _ = tier;
    Case {
        prop: prop.into(),
        seed,
        engine: Engine::Seq,
        cfg: g.cfg.clone(),
        program,
        threads: vec![],
        schedule: None,
        fault: Fault::Io { kind: if g.r.chance(1, 2) { IoKind::Eio } else { IoKind::Enospc }, target: IoTarget::MetaDuringDelete, n: None, persistent: false },
        class: "delete-keyspace-io-fault".into(),
    }
}

fn run_delete_fault_once(case: &Case, dir: &Path, fault: Fault) -> IoRun {
    let live = dir.join("live");
    let scratch = dir.join("scratch");
    crate::interpose::bypass(|| std::fs::create_dir_all(&scratch).ok());
    let mon: SharedMon = Mon::new(&live, &scratch, fault, case.seed);
    faults::install(&mon);
    let mut ex = Exec::new(&case.cfg, live.clone());
    ex.tolerate_errors = true;
    let mut violation = None;
    let mut stats = crate::exec::Stats::default();
    let mut delete_failed = false;
    let mut victim: Option<KsIdx> = None;
    if let Err(v) = ex.open() {
        violation = Some(v);
    } else {
        for (i, op) in case.program.iter().enumerate() {
            // a keyspace that was deleted successfully: the rest of the program is about the
            // failed case only (re-creating the name would start a new incarnation)
            if matches!(op, Op::CreateKs { ks } | Op::Insert { ks, .. } if i > 2 && !ex.model.ks.contains_key(ks)) {
                continue;
            }
            mon.lock().unwrap().enabled = true;
            let r = ex.step(i, op);
            mon.lock().unwrap().enabled = false;
            match r {
                Err(v) => {
                    violation = Some(v);
                    break;
                }
                Ok(info) => {
                    if let Some(e) = info.failed {
                        let fired = mon.lock().unwrap().io.fired_at_call.is_some();
                        if let (Op::DeleteKs { ks }, true, false) = (op, fired, delete_failed) {
                            delete_failed = true;
                            victim = Some(*ks);
                            stats.inc("delete_keyspace_failed_by_fault");
                            // The properties do not say whether a deletion that reports an I/O
                            // error has happened or not - but it is one or the other, for
                            // everybody: either the name still exists and is fully usable with
                            // its content, or it is gone.
                            let name = case.cfg.names[*ks as usize].clone();
                            let inst = ex.inst.as_mut().unwrap();
                            if inst.db.keyspace_exists(&name) {
                                let old_id = inst.k(*ks).map(|k| k.id());
                                let o = case.cfg.opts[*ks as usize].clone();
                                match inst.db.keyspace(&name, move || crate::inst::make_opts(&o)) {
                                    Ok(k2) => {
                                        if Some(k2.id()) != old_id {
                                            violation = Some(Violation::new("failed-delete-inconsistent", format!("after delete_keyspace({name:?}) failed with {e}, opening the name yields another keyspace (id {} instead of {old_id:?})", k2.id())));
                                            break;
                                        }
                                        let probe = k2.insert("\u{7f}probe", "x").and_then(|()| k2.remove("\u{7f}probe"));
                                        if let Err(pe) = probe {
                                            violation = Some(Violation::new("failed-delete-inconsistent", format!("after delete_keyspace({name:?}) failed with {e} the name still exists, but the keyspace refuses writes: {pe:?}")));
                                            break;
                                        }
                                    }
                                    Err(oe) => {
                                        violation = Some(Violation::new("failed-delete-inconsistent", format!("after delete_keyspace({name:?}) failed with {e} the name still exists but cannot be opened: {oe:?}")));
                                        break;
                                    }
                                }
                            } else {
                                // it took effect after all: the model follows
                                stats.inc("failed_delete_took_effect_in_session");
                                inst.drop_ks_handle(*ks as usize);
                                ex.model.ks.remove(ks);
                            }
                        } else {
                            violation = Some(Violation::new(
                                "failed-delete-inconsistent",
                                format!("op #{i} {op:?} fails with {e} after delete_keyspace had reported an I/O error (a failed deletion must not affect other operations)"),
                            ));
                            break;
                        }
                    }
                }
            }
        }
    }
    let (seen, fired) = {
        let m = mon.lock().unwrap();
        (m.io.seen, m.io.fired_at_call.is_some())
    };
    if fired && !delete_failed && violation.is_none() {
        // fjall absorbed the error (e.g. in the meta keyspace's best-effort maintenance): fine
        stats.inc("delete_fault_absorbed");
    }
    let final_state = ex.model.clone();
    mon.lock().unwrap().enabled = false;
    ex.close();
    faults::uninstall();
    if violation.is_none() {
        match std::panic::catch_unwind(std::panic::AssertUnwindSafe(|| faults::read_dir_state(&live, &case.cfg))) {
            Ok(Ok(mut real)) => {
                stats.inc("reopen_after_fault_checked");
                let mut want = faults::state_maps(&final_state);
                // the keyspace whose deletion reported an error may turn out deleted after the
                // restart (the deletion record can be durable although the call failed); whatever
                // is there must have exactly the content it had before the close
                if let Some(v) = victim {
                    if want.contains_key(&v) && !real.contains_key(&v) {
                        stats.inc("failed_delete_took_effect_after_reopen");
                        want.remove(&v);
                    }
                }
                real.retain(|_, _| true);
                if real != want {
                    violation = Some(Violation::new(
                        "failed-delete-inconsistent",
                        format!("after the run (delete_keyspace failed: {delete_failed}) reopening shows {} but the state before the close was {}", faults::brief_maps(&real), final_state.brief()),
                    ));
                }
            }
            Ok(Err(e)) => violation = Some(Violation::new("failed-delete-inconsistent", format!("reopening fails: {e}"))),
            Err(_) => violation = Some(Violation::new("failed-delete-inconsistent", "reopening panics".to_string())),
        }
    }
    let hash = crate::rng::mix(final_state.digest() ^ u64::from(seen) ^ u64::from(delete_failed));
    IoRun { violation, stats, seen, fired, hash }
}

pub fn run_delete_fault(case: &Case, dir: PathBuf) -> Outcome {
    crate::hooks::set_mode(crate::hooks::MODE_SEQ);
    crate::hooks::set_rotation_threshold(case.cfg.rotation_threshold);
    let Fault::Io { kind, target, n, persistent } = case.fault.clone() else {
        let mut o = Outcome::ok(Default::default(), 0);
        o.harness_error = Some("delete-fault case without Io fault".into());
        return o;
    };
    let mut stats = crate::exec::Stats::default();
    let mut hash = 0u64;
    let mut evals = 0u64;
    let mut violation = None;
    let mut narrowed = None;
    let mut fired_any = false;
    let ns: Vec<u32> = match n {
        Some(k) => vec![k],
        None => {
            let base = run_delete_fault_once(case, &dir.join("base"), Fault::Io { kind: kind.clone(), target: target.clone(), n: Some(u32::MAX), persistent });
            crate::fsutil::remove_tree(&dir.join("base"));
            hash = base.hash;
            if let Some(v) = base.violation {
                let mut o = Outcome::ok(base.stats, hash);
                o.violation = Some(v);
                return o;
            }
            stats.add("io_matching_calls", u64::from(base.seen));
            (1..=base.seen.min(40)).collect()
        }
    };
    for k in ns {
        let f = Fault::Io { kind: kind.clone(), target: target.clone(), n: Some(k), persistent };
        let sub = dir.join(format!("n{k}"));
        let r = run_delete_fault_once(case, &sub, f.clone());
        crate::fsutil::remove_tree(&sub);
        evals += 1;
        stats.merge(&r.stats);
        hash = crate::rng::mix(hash ^ r.hash);
        fired_any |= r.fired;
        if let Some(mut v) = r.violation {
            v.detail = format!("fault at matching call #{k} inside delete_keyspace: {}", v.detail);
            violation = Some(v);
            narrowed = Some(f);
            break;
        }
    }
    let mut o = Outcome::ok(stats, hash);
    o.violation = violation;
    o.narrowed = narrowed;
    o.evals = evals.max(1);
    o.shape = shape_hash(case);
    o.nontrivial = fired_any;
    o
}

// ------------------------------------------------------------------------------------- C03 / C15

/// Journal-only programs: several commits of different shapes, nothing flushed
fn gen_journal_program(g: &mut G, n_commits: usize, overlap: bool) -> Vec<Op> {
    let mut ops = vec![];
    for _ in 0..n_commits {
        let ks = g.live_ks().unwrap_or(0);
        let key = if overlap { (g.r.below(2)) as u8 } else { g.key() };
        match g.r.below(10) {
            0 | 1 | 2 => ops.push(Op::Insert { ks, key, val: g.val() }),
            3 => ops.push(Op::Remove { ks, key }),
            4 | 5 | 6 => ops.push(g.batch(4, false)),
            7 => ops.push(Op::Clear { ks }),
            _ => {
                if g.cfg.db_kind == DbKind::Plain {
                    ops.push(Op::Insert { ks, key, val: g.val() });
                } else {
                    ops.extend(g.tx_whole(ks));
                }
            }
        }
    }
    ops
}

pub fn gen_c03(tier: Tier, seed: u64) -> Case {
    let mut r = Rng::stream(seed, "workload");
    let n_names = r.range(1, 3) as usize;
    let n_keys = r.range(2, 4) as usize;
    let kind = match r.below(3) {
        0 => DbKind::Plain,
        1 => DbKind::SingleWriter,
        _ => DbKind::Optimistic,
    };
    let mut g = G::new(&mut r, n_names, n_keys, kind, false);
    g.cfg.check_every = 0;
    g.cfg.rotation_threshold = 0;
    for o in &mut g.cfg.opts {
        o.max_memtable = 0;
    }
    let big = g.r.chance(1, 6);
    g.sizes = if big { vec![1, 8, 4097, 4097] } else { vec![0, 1, 8, 24, 24, 60] };
    let n = match tier {
        Tier::Quick => g.r.range(2, 5),
        Tier::Thorough => g.r.range(2, 8),
    } as usize;
    let mut program = g.create_initial(n_names);
    program.extend(gen_journal_program(&mut g, n, false));
    // some keyspaces are flushed in the middle (their part of earlier batches is in tables, the
    // other keyspaces' part only in the journal); the cut sweep covers the commits after that
    let mut flushed = false;
    if n_names >= 2 && g.r.chance(1, 3) {
        let f = g.r.below(n_names as u64) as u8;
        program.push(Op::Rotate { ks: f });
        program.push(Op::WorkerStep);
        if g.r.chance(1, 2) {
            program.push(Op::WorkerStep);
        }
        let more = g.r.range(1, 3) as usize;
        program.extend(gen_journal_program(&mut g, more, false));
        flushed = true;
    }
    let class = format!("{:?}{}{}", kind, if big { "-compressed-value" } else { "" }, if flushed { "-one-keyspace-flushed" } else { "" });
    Case {
        prop: "C03".into(),
        seed,
        engine: Engine::Seq,
        cfg: g.cfg.clone(),
        program,
        threads: vec![],
        schedule: None,
        fault: Fault::Cut { at: None },
        class,
    }
}

pub fn gen_c15(tier: Tier, seed: u64) -> Case {
    let mut r = Rng::stream(seed, "workload");
    let n_names = r.range(1, 3) as usize;
    let n_keys = r.range(2, 4) as usize;
    let mut g = G::new(&mut r, n_names, n_keys, DbKind::Plain, false);
    g.cfg.check_every = 0;
    g.cfg.rotation_threshold = 0;
    for o in &mut g.cfg.opts {
        o.max_memtable = 0;
    }
    let roundtrip = g.r.chance(1, 2);
    let class;
    let mut program = g.create_initial(n_names);
    let fault;
    if roundtrip {
        // value lengths around the compression threshold, compressible and not, empty, long keys
        g.sizes = vec![0, 1, 4095, 4096, 4097, 8, 24, 9000, 65536];
        g.incompressible_pct = 50;
        if g.r.chance(1, 3) {
            let long = vec![b'L'; *g.r.pick(&[300usize, 4096, 65535])];
            g.cfg.keys.push(long);
            g.write_count.iter_mut().for_each(|w| w.push(0));
        }
        let n = g.r.range(2, if tier == Tier::Quick { 6 } else { 12 }) as usize;
        let with_deleted_batch = n_names >= 2 && g.r.chance(1, 3);
        program.extend(gen_journal_program(&mut g, n, false));
        if with_deleted_batch {
            // a batch that was filled while keyspace `victim` existed and is committed after it
            // was deleted: whatever the commit does with those items, the record must read back
            let victim = (n_names - 1) as u8;
            let mut items = vec![];
            for ks in 0..n_names as u8 {
                for _ in 0..g.r.range(1, 2) {
                    let key = g.key();
                    items.push(BItem { ks, key, kind: if g.r.chance(1, 5) { BKind::Del } else { BKind::Put(g.val()) } });
                }
            }
            program.push(Op::BatchDeleteCommit { items, ks: victim });
            let v = g.val();
            program.push(Op::Insert { ks: 0, key: g.key(), val: v });
        }
        fault = Fault::Damage { at: Some((u64::MAX, 0)), all_values: false };
        class = format!("roundtrip-write{}{}", if g.cfg.journal_lz4 { "Lz4" } else { "None" }, if with_deleted_batch { "+batch-after-keyspace-delete" } else { "" });
    } else {
        g.sizes = vec![1, 8, 8, 24];
        let n = g.r.range(3, if tier == Tier::Quick { 6 } else { 8 }) as usize;
        program.extend(gen_journal_program(&mut g, n, true));
        fault = Fault::Damage { at: None, all_values: tier == Tier::Thorough && g.r.chance(1, 4) };
        class = "damage".to_string();
    }
    Case {
        prop: "C15".into(),
        seed,
        engine: Engine::Seq,
        cfg: g.cfg.clone(),
        program,
        threads: vec![],
        schedule: None,
        fault,
        class,
    }
}

fn journal_path(dir: &Path) -> Option<PathBuf> {
    let mut js: Vec<(u64, PathBuf)> = crate::fsutil::list_files(dir)
        .into_iter()
        .filter(|f| f.ends_with(".jnl") && !f.contains('/'))
        .filter_map(|f| f.trim_end_matches(".jnl").parse::<u64>().ok().map(|i| (i, dir.join(&f))))
        .collect();
    js.sort();
    js.pop().map(|x| x.1)
}

fn open_state(dir: &Path, cfg: &Cfg, lz4: bool) -> Result<std::collections::BTreeMap<KsIdx, crate::model::Map>, String> {
    let mut c = cfg.clone();
    c.journal_lz4 = lz4;
    let r = std::panic::catch_unwind(std::panic::AssertUnwindSafe(|| faults::read_dir_state(dir, &c)));
    match r {
        Ok(x) => x,
        Err(_) => {
            let (loc, msg) = crate::LAST_PANIC.lock().unwrap().clone().unwrap_or_default();
            Err(format!("PANIC at {loc}: {msg}"))
        }
    }
}

/// Builds the journal with the real code; returns (executor with history, batch end offsets)
fn build_journal<'a>(case: &'a Case, live: &Path) -> Result<(Exec<'a>, Vec<(u64, usize)>), Violation> {
    let (ex, bounds, _) = build_journal_floor(case, live)?;
    Ok((ex, bounds))
}

/// Also returns the journal length at the last maintenance step (memtable flush): tables written
/// then hold everything journaled below it, so only cuts at or above it are states a crash can leave.
fn build_journal_floor<'a>(case: &'a Case, live: &Path) -> Result<(Exec<'a>, Vec<(u64, usize)>, u64), Violation> {
    let mut ex = Exec::new(&case.cfg, live.to_path_buf());
    ex.open()?;
    // (journal valid length, history index) after each acknowledged journaled op
    let mut bounds: Vec<(u64, usize)> = vec![];
    let mut floor = 0u64;
    for (i, op) in case.program.iter().enumerate() {
        let info = ex.step(i, op)?;
        if matches!(op, Op::Rotate { .. } | Op::WorkerStep | Op::Drain | Op::Quiesce | Op::MajorCompact { .. }) {
            if let Some(j) = journal_path(live) {
                floor = crate::fsutil::valid_len(&j);
            }
        }
        if info.acked && !matches!(op, Op::CreateKs { .. } | Op::DeleteKs { .. }) {
            if let Some(j) = journal_path(live) {
                bounds.push((crate::fsutil::valid_len(&j), ex.acked()));
            }
        }
    }
    ex.check_all()?;
    Ok((ex, bounds, floor))
}

pub fn run_cuts(case: &Case, dir: PathBuf) -> Outcome {
    crate::hooks::set_mode(crate::hooks::MODE_SEQ);
    crate::hooks::set_rotation_threshold(0);
    let live = dir.join("live");
    let mut stats = crate::exec::Stats::default();
    let (mut ex, bounds, floor) = match build_journal_floor(case, &live) {
        Ok(x) => x,
        Err(v) => {
            let mut o = Outcome::ok(stats, 0);
            o.violation = Some(v);
            return o;
        }
    };
    let history = ex.history.clone();
    let base_idx = history.len() - 1 - bounds.len();
    ex.close();
    if floor > 0 {
        stats.inc("layouts_with_flushed_keyspaces");
    }
    let Some(jp) = journal_path(&live) else {
        let mut o = Outcome::ok(stats, 0);
        o.harness_error = Some("no journal file".into());
        return o;
    };
    let jrel = jp.file_name().unwrap().to_owned();
    let valid = crate::fsutil::valid_len(&jp);
    let first_start = bounds.first().map(|_| 0u64).unwrap_or(0);
    let _ = first_start;
    let mut violation = None;
    let mut narrowed = None;
    let mut evals = 0u64;
    let mut hash = crate::rng::mix(valid ^ history.last().unwrap().digest());
    let offsets: Vec<(u64, bool)> = match &case.fault {
        Fault::Cut { at: Some((c, padded)) } => vec![(*c, *padded)],
        _ => {
            let mut v = vec![];
            let all: Vec<u64> = if valid <= 1500 {
                (0..=valid).collect()
            } else {
                // every offset near a batch boundary and inside the first and last record,
                // plus a stride over the rest
                let mut s: std::collections::BTreeSet<u64> = Default::default();
                for (b, _) in &bounds {
                    for d in 0..48u64 {
                        s.insert(b.saturating_sub(d));
                        s.insert((b + d).min(valid));
                    }
                }
                for c in 0..64u64.min(valid) {
                    s.insert(c);
                    s.insert(valid - c);
                }
                let mut c = 0;
                while c <= valid {
                    s.insert(c);
                    c += 37;
                }
                stats.inc("cut_sweeps_sampled");
                s.into_iter().collect()
            };
            if valid <= 1500 {
                stats.inc("cut_sweeps_exhaustive");
            }
            for c in all {
                if c < floor {
                    continue;
                }
                v.push((c, true));
                v.push((c, false));
            }
            v
        }
    };
    let sweep_t0 = std::time::Instant::now();
    for (c, padded) in offsets {
        if sweep_t0.elapsed().as_secs() > 75 && !matches!(case.fault, Fault::Cut { at: Some(_) }) {
            stats.inc("cut_sweeps_cut_short_by_time");
            break;
        }
        let work = dir.join("cut");
        crate::fsutil::remove_tree(&work);
        if crate::fsutil::copy_tree(&live, &work).is_err() {
            continue;
        }
        let j = work.join(&jrel);
        let r = crate::interpose::bypass(|| -> std::io::Result<()> {
            let f = std::fs::OpenOptions::new().write(true).open(&j)?;
            f.set_len(c)?;
            if padded {
                f.set_len(64 * 1024 * 1024)?;
            }
            Ok(())
        });
        if r.is_err() {
            continue;
        }
        evals += 1;
        stats.inc(if padded { "cuts_padded" } else { "cuts_unpadded" });
        // the append check below runs on a copy that has not been opened before: repair, append
        // and close then happen in ONE session (an open in between can heal what a repair left)
        let do_append = evals % 3 == 0 || matches!(case.fault, Fault::Cut { at: Some(_) });
        let work2 = dir.join("cut2");
        if do_append {
            crate::fsutil::remove_tree(&work2);
            if crate::fsutil::copy_tree(&work, &work2).is_err() {
                crate::fsutil::remove_tree(&work2);
            }
        }
        // complete batches before the cut
        let m = bounds.iter().filter(|(b, _)| *b <= c).map(|(_, h)| *h).max().unwrap_or(base_idx);
        let want = faults::state_maps(&history[m]);
        let fail = |what: String| Violation::new("torn-journal-all-or-nothing", format!("journal cut at byte {c} of {valid} ({}): {what}", if padded { "zero padded" } else { "file ends there" }));
        match open_state(&work, &case.cfg, case.cfg.journal_lz4) {
            Ok(real) => {
                if real != want {
                    violation = Some(fail(format!("recovered {} but the complete batches before the cut give {}", faults::brief_maps(&real), faults::brief_maps(&want))));
                }
            }
            Err(e) => violation = Some(fail(format!("reopen fails: {e}"))),
        }
        // later appends to the repaired journal are recoverable again
        if violation.is_none() && do_append && work2.exists() {
            let work = work2.clone();
            let r = std::panic::catch_unwind(std::panic::AssertUnwindSafe(|| -> Result<(), String> {
                let mut inst = crate::inst::Instance::open_with(&work, &case.cfg, case.cfg.journal_lz4, 0)?;
                let Some(ks) = history[m].ks.keys().next().copied() else { return Ok(()) };
                inst.open_ks(&case.cfg, ks as usize, &case.cfg.opts[ks as usize])?;
                inst.k(ks).unwrap().insert("zz-after-repair", "appended").map_err(|e| format!("{e:?}"))?;
                drop(inst);
                let mut want2 = want.clone();
                want2.get_mut(&ks).unwrap().insert(b"zz-after-repair".to_vec(), b"appended".to_vec());
                let real2 = faults::read_dir_state(&work, &case.cfg)?;
                if real2 != want2 {
                    return Err(format!("after appending to the repaired journal and reopening: {} instead of {}", faults::brief_maps(&real2), faults::brief_maps(&want2)));
                }
                Ok(())
            }));
            stats.inc("append_after_repair_checked");
            match r {
                Ok(Ok(())) => {}
                Ok(Err(e)) => violation = Some(fail(e)),
                Err(_) => violation = Some(fail("panic while appending to the repaired journal".into())),
            }
        }
        hash = crate::rng::mix(hash ^ c ^ u64::from(padded));
        if violation.is_some() {
            narrowed = Some(Fault::Cut { at: Some((c, padded)) });
            break;
        }
    }
    crate::fsutil::remove_tree(&dir.join("cut"));
    stats.merge(&ex.stats);
    let mut o = Outcome::ok(stats, hash);
    o.violation = violation;
    o.narrowed = narrowed;
    o.evals = evals.max(1);
    o.shape = crate::rng::mix(shape_hash(case) ^ valid);
    o.nontrivial = bounds.len() >= 2;
    o
}

pub fn run_damage(case: &Case, dir: PathBuf) -> Outcome {
    crate::hooks::set_mode(crate::hooks::MODE_SEQ);
    crate::hooks::set_rotation_threshold(0);
    let live = dir.join("live");
    let mut stats = crate::exec::Stats::default();
    let (mut ex, bounds) = match build_journal(case, &live) {
        Ok(x) => x,
        Err(v) => {
            let mut o = Outcome::ok(stats, 0);
            o.violation = Some(v);
            return o;
        }
    };
    let history = ex.history.clone();
    let base_idx = history.len() - 1 - bounds.len();
    let final_state = faults::state_maps(history.last().unwrap());
    ex.close();
    let Some(jp) = journal_path(&live) else {
        let mut o = Outcome::ok(stats, 0);
        o.harness_error = Some("no journal file".into());
        return o;
    };
    let jrel = jp.file_name().unwrap().to_owned();
    let valid = crate::fsutil::valid_len(&jp);
    let mut violation = None;
    let mut narrowed = None;
    let mut evals = 0u64;
    let mut hash = crate::rng::mix(valid ^ history.last().unwrap().digest());

    // round trip: bit-exact under both read-time compression settings
    for lz4 in [case.cfg.journal_lz4, !case.cfg.journal_lz4] {
        evals += 1;
        stats.inc(if lz4 == case.cfg.journal_lz4 { "roundtrip_same_setting" } else { "roundtrip_cross_setting" });
        let work = dir.join("rt");
        crate::fsutil::remove_tree(&work);
        let _ = crate::fsutil::copy_tree(&live, &work);
        match open_state(&work, &case.cfg, lz4) {
            Ok(real) if real == final_state => {
                // the journal that was just read back (and trimmed) is appended to - under the
                // read-time setting - and read back once more: commits of both sessions, exact
                let mut c2 = case.cfg.clone();
                c2.journal_lz4 = lz4;
                let r = std::panic::catch_unwind(std::panic::AssertUnwindSafe(|| -> Result<(), String> {
                    let want = faults::write_after_recovery(&work, &c2, &real, 3)?;
                    let got = faults::read_dir_state(&work, &c2)?;
                    if got != want {
                        return Err(format!("after a reopen, further commits and another reopen: {} instead of {}", faults::brief_maps(&got), faults::brief_maps(&want)));
                    }
                    Ok(())
                }));
                stats.inc("roundtrip_continued");
                match r {
                    Ok(Ok(())) => {}
                    Ok(Err(e)) => violation = Some(Violation::new("journal-roundtrip", format!("journal written with compression={} and read with compression={lz4}: {e}", case.cfg.journal_lz4))),
                    Err(_) => violation = Some(Violation::new("journal-roundtrip", "panic while appending to / reopening the journal after the round trip".to_string())),
                }
            }
            Ok(real) => {
                violation = Some(Violation::new("journal-roundtrip", format!("journal written with compression={} and read with compression={}: recovered {} instead of {}", case.cfg.journal_lz4, lz4, faults::brief_maps(&real), faults::brief_maps(&final_state))));
            }
            Err(e) => {
                violation = Some(Violation::new("journal-roundtrip", format!("journal written with compression={} cannot be read with compression={}: {e}", case.cfg.journal_lz4, lz4)));
            }
        }
        crate::fsutil::remove_tree(&work);
        if violation.is_some() {
            break;
        }
    }

    let sweep: Vec<(u64, u8)> = match &case.fault {
        Fault::Damage { at: Some((u64::MAX, _)), .. } => vec![],
        Fault::Damage { at: Some((i, p)), .. } => vec![(*i, *p)],
        Fault::Damage { at: None, all_values } => {
            let mut v = vec![];
            for i in 0..valid {
                if *all_values {
                    for p in 1..=255u8 {
                        v.push((i, p));
                    }
                } else {
                    // xor patterns: flip low bit, flip high bit, to zero, to 0xff, +1, -1 are all
                    // expressed as "xor with p" computed from the original byte at apply time
                    for p in [1u8, 2, 3, 4, 5, 6] {
                        v.push((i, p));
                    }
                }
            }
            v
        }
        _ => vec![],
    };
    let allowed: Vec<_> = history[base_idx..].iter().map(faults::state_maps).collect();
    let orig = crate::interpose::bypass(|| {
        use std::os::unix::fs::FileExt;
        let f = std::fs::File::open(&jp).unwrap();
        let mut b = vec![0u8; valid as usize];
        f.read_exact_at(&mut b, 0).unwrap();
        b
    });
    let all_values = matches!(case.fault, Fault::Damage { all_values: true, .. });
    let mut deferred: Option<(Violation, Option<Fault>)> = None;
    if violation.is_none() {
        // a sweep is bounded in time as well (thorough classes alter every byte to every value:
        // what does not fit is counted, not waited for - the per-case watchdog is for hangs)
        let sweep_t0 = std::time::Instant::now();
        for (i, p) in sweep {
            if sweep_t0.elapsed().as_secs() > 75 && !matches!(case.fault, Fault::Damage { at: Some(_), .. }) {
                stats.inc("damage_sweeps_cut_short_by_time");
                break;
            }
            let ob = orig[i as usize];
            let nb = if all_values {
                ob ^ p
            } else {
                match p {
                    1 => ob ^ 0x01,
                    2 => ob ^ 0x80,
                    3 => 0x00,
                    4 => 0xff,
                    5 => ob.wrapping_add(1),
                    _ => ob.wrapping_sub(1),
                }
            };
            if nb == ob {
                continue;
            }
            let work = dir.join("dmg");
            crate::fsutil::remove_tree(&work);
            if crate::fsutil::copy_tree(&live, &work).is_err() {
                continue;
            }
            let j = work.join(&jrel);
            let _ = crate::interpose::bypass(|| -> std::io::Result<()> {
                use std::os::unix::fs::FileExt;
                let f = std::fs::OpenOptions::new().write(true).open(&j)?;
                f.write_all_at(&[nb], i)
            });
            evals += 1;
            stats.inc("damage_states");
            // which batch does the byte belong to, and which field?
            let field = {
                let mut start = 0u64;
                let mut field = String::from("?");
                for (b, _) in &bounds {
                    if i < *b {
                        let rel = i - start;
                        field = if rel == 0 {
                            "start tag".into()
                        } else if rel < 5 {
                            "start marker: item count".into()
                        } else if rel < 13 {
                            "start marker: seqno".into()
                        } else {
                            format!("offset {rel} inside the batch")
                        };
                        break;
                    }
                    start = *b;
                }
                field
            };
            match open_state(&work, &case.cfg, case.cfg.journal_lz4) {
                Err(e) => {
                    if e.starts_with("PANIC") {
                        stats.inc("damage_open_panicked");
                    } else {
                        stats.inc("damage_open_failed");
                    }
                }
                Ok(real) => {
                    if allowed.iter().any(|a| *a == real) {
                        stats.inc("damage_prefix_state");
                        if real == final_state {
                            stats.inc("damage_not_noticed_full_state");
                        }
                        // the database that came out of the damaged journal must be healthy: a
                        // later commit is recoverable (sampled: every 4th such state)
                        if evals % 6 == 0 || matches!(case.fault, Fault::Damage { at: Some(_), .. }) {
                            if let Some(ks) = real.keys().next().copied() {
                                let r = std::panic::catch_unwind(std::panic::AssertUnwindSafe(|| -> Result<(), String> {
                                    let mut inst = crate::inst::Instance::open_with(&work, &case.cfg, case.cfg.journal_lz4, 0)?;
                                    inst.open_ks(&case.cfg, ks as usize, &case.cfg.opts[ks as usize])?;
                                    inst.k(ks).unwrap().insert("zz-after-damage", "appended").map_err(|e| format!("{e:?}"))?;
                                    drop(inst);
                                    let mut want2 = real.clone();
                                    want2.get_mut(&ks).unwrap().insert(b"zz-after-damage".to_vec(), b"appended".to_vec());
                                    let real2 = faults::read_dir_state(&work, &case.cfg)?;
                                    if real2 != want2 {
                                        return Err(format!("{} instead of {}", faults::brief_maps(&real2), faults::brief_maps(&want2)));
                                    }
                                    Ok(())
                                }));
                                stats.inc("append_after_damage_checked");
                                let bad = match r {
                                    Ok(Ok(())) => None,
                                    Ok(Err(e)) => Some(e),
                                    Err(_) => Some("panic".to_string()),
                                };
                                if let Some(e) = bad {
                                    violation = Some(Violation::new(
                                        "commit-after-damage-lost",
                                        format!("byte {i} of the journal changed {ob:#04x}->{nb:#04x} [{field}]: the first open recovers a prefix state, but a commit made afterwards is not recovered by the next open: {e}"),
                                    ));
                                    narrowed = Some(Fault::Damage { at: Some((i, p)), all_values });
                                }
                            }
                        }
                    } else {
                        violation = Some(Violation::new(
                            "damage-read-as-different-data",
                            format!(
                                "byte {i} of the journal changed {ob:#04x}->{nb:#04x} [{field}]: open succeeds and shows {} which is not the state of any prefix of the commit history (full state {})",
                                faults::brief_maps(&real),
                                faults::brief_maps(&final_state)
                            ),
                        ));
                        narrowed = Some(Fault::Damage { at: Some((i, p)), all_values });
                    }
                }
            }
            hash = crate::rng::mix(hash ^ i ^ u64::from(nb));
            if let Some(v) = &violation {
                // the start-marker class (recorded finding) must not hide anything behind it:
                // remember the first one and keep sweeping
                if v.detail.contains("[start marker: seqno]") && !matches!(case.fault, Fault::Damage { at: Some(_), .. }) {
                    stats.inc("damage_start_marker_class");
                    if deferred.is_none() {
                        deferred = Some((violation.take().unwrap(), narrowed.take()));
                    } else {
                        violation = None;
                        narrowed = None;
                    }
                    continue;
                }
                break;
            }
        }
    }
    if violation.is_none() {
        if let Some((v, n)) = deferred {
            violation = Some(v);
            narrowed = n;
        }
    }
    crate::fsutil::remove_tree(&dir.join("dmg"));
    stats.merge(&ex.stats);
    let mut o = Outcome::ok(stats, hash);
    o.violation = violation;
    o.narrowed = narrowed;
    o.evals = evals.max(1);
    o.shape = crate::rng::mix(shape_hash(case) ^ valid);
    o.nontrivial = bounds.len() >= 2;
    o
}

// ------------------------------------------------------------------------------------- C17

pub fn gen_c17(tier: Tier, seed: u64) -> Case {
    let mut r = Rng::stream(seed, "workload");
    let n_names = r.range(1, 3) as usize;
    let kind = match r.below(3) {
        0 => DbKind::Plain,
        1 => DbKind::SingleWriter,
        _ => DbKind::Optimistic,
    };
    let mut g = G::new(&mut r, n_names, 3, kind, false);
    g.cfg.check_every = 0;
    g.cfg.workers = *g.r.pick(&[0usize, 1, 2]);
    let marker = g.r.chance(1, 3);
    let mix = Mix {
        insert: 6,
        remove: 1,
        batch: 2,
        maint: if g.cfg.workers == 0 { 2 } else { 0 },
        second_open: 5,
        ks_life: 2,
        reopen: 3,
        view: 1,
        ..Mix::zero()
    };
    let n = match tier {
        Tier::Quick => g.r.range(4, 16),
        Tier::Thorough => g.r.range(4, 30),
    } as usize;
    let mut program = g.create_initial(1);
    program.extend(g.program(n, &mix));
    // pending background work at drop time
    for ks in 0..n_names as u8 {
        if g.exists[ks as usize] && g.r.chance(1, 2) {
            program.push(Op::Rotate { ks });
        }
    }
    // a sealed journal that is still registered (another keyspace has unflushed data in it) when
    // the last handle is dropped: the journal manager's keyspace handles must not keep the
    // instance (and its lock) alive
    let mut sealed = false;
    if g.cfg.workers == 0 && g.r.chance(1, 3) {
        let mut live: Vec<u8> = (0..n_names as u8).filter(|k| g.exists[*k as usize]).collect();
        if live.len() < 2 {
            if let Some(k) = (0..n_names as u8).find(|k| !g.exists[*k as usize]) {
                program.push(Op::CreateKs { ks: k });
                g.exists[k as usize] = true;
                live.push(k);
            }
        }
        if live.len() >= 2 {
            g.cfg.rotation_threshold = 512;
            let (a, b) = (live[0], live[1]);
            let v = g.val_sized(700, false);
            program.push(Op::Insert { ks: a, key: 0, val: v });
            let v = g.val_sized(100, true);
            program.push(Op::Insert { ks: b, key: 1, val: v });
            program.push(Op::Rotate { ks: a });
            program.push(Op::WorkerStep);
            if g.r.chance(1, 2) {
                program.push(Op::WorkerStep);
            }
            sealed = true;
        }
    }
    program.push(Op::SecondOpen);
    program.push(Op::Reopen);
    let fault = if marker {
        let bytes = match g.r.below(7) {
            0 => None, // sweep FJL+v for every v
            1 => Some(vec![]),
            2 => Some(b"FJL".to_vec()),
            3 => Some((0..g.r.range(1, 8)).map(|_| g.r.next() as u8).collect()),
            4 => Some(vec![b'F', b'J', b'L', g.r.next() as u8]),
            5 => Some(vec![0xff]),
            _ => Some(b"absent".to_vec()),
        };
        Fault::Marker { bytes }
    } else {
        Fault::None
    };
    let class = format!("{:?}-w{}{}{}", kind, g.cfg.workers, if marker { "-marker" } else { "" }, if sealed { "-sealed-at-close" } else { "" });
    Case {
        prop: "C17".into(),
        seed,
        engine: Engine::Seq,
        cfg: g.cfg.clone(),
        program,
        threads: vec![],
        schedule: None,
        fault,
        class,
    }
}

/// Handle-order scenario: database handles, clones, keyspace handles, snapshots and iterators are
/// dropped in a drawn order; while any of them lives a second open must be refused with Locked,
/// after the last one it must succeed at once and show every acknowledged write.
fn handle_order(case: &Case, dir: &Path, o: &mut Outcome) {
    use fjall::Readable;
    enum H {
        Db(#[allow(dead_code)] fjall::Database),
        Sw(#[allow(dead_code)] fjall::SingleWriterTxDatabase),
        Opt(#[allow(dead_code)] fjall::OptimisticTxDatabase),
        Ks(#[allow(dead_code)] fjall::Keyspace),
        Snap(#[allow(dead_code)] fjall::Snapshot),
        Iter(#[allow(dead_code)] fjall::Iter),
    }
    let mut r = Rng::stream(case.seed, "handles");
    let d = dir.join("handles");
    // half of the runs buffer journal writes in user space (manual journal persist): only the
    // drop-time persist of the journal makes them reach the file at all
    let mut cfg2 = case.cfg.clone();
    cfg2.manual_persist = r.chance(1, 2);
    let case = &Case { cfg: cfg2, ..case.clone() };
    let mut handles: Vec<H> = vec![];
    let mut expect: std::collections::BTreeMap<Vec<u8>, Vec<u8>> = Default::default();
    let res = std::panic::catch_unwind(std::panic::AssertUnwindSafe(|| -> Result<(), Violation> {
        let mut inst = crate::inst::Instance::open(&d, &case.cfg).map_err(|e| Violation::new("open-failed", e))?;
        inst.open_ks(&case.cfg, 0, &case.cfg.opts[0]).map_err(|e| Violation::new("unexpected-error", e))?;
        let ks = inst.k(0).unwrap().clone();
        let mut rotations = 0;
        for i in 0..r.range(1, 6) {
            let k = format!("h{i}").into_bytes();
            let v = format!("v{i}-{}", r.below(1000)).into_bytes();
            ks.insert(&k[..], &v[..]).map_err(|e| Violation::new("unexpected-error", format!("{e:?}")))?;
            expect.insert(k, v);
            // queued background work at drop time, but never enough sealed memtables to make
            // a write wait for a worker that does not exist
            if rotations < 2 && r.chance(1, 3) {
                rotations += 1;
                let _ = ks.rotate_memtable();
            }
        }
        // a population of handles of every kind
        for _ in 0..r.range(1, 3) {
            handles.push(H::Db(inst.db.clone()));
        }
        for _ in 0..r.range(1, 3) {
            handles.push(H::Ks(ks.clone()));
        }
        if r.chance(1, 2) {
            handles.push(H::Snap(inst.db.snapshot()));
        }
        if r.chance(1, 2) {
            handles.push(H::Iter(ks.iter()));
        }
        if let Some(t) = &inst.sw {
            handles.push(H::Sw(t.clone()));
        }
        if let Some(t) = &inst.opt {
            handles.push(H::Opt(t.clone()));
        }
        drop(ks);
        drop(inst);
        // drop in a drawn order
        while !handles.is_empty() {
            // snapshots and iterators do not pin the directory lock by themselves
            let pins = handles.iter().any(|h| !matches!(h, H::Snap(_) | H::Iter(_)));
            let digest = crate::fsutil::tree_digest(&d);
            let second = crate::inst::Instance::open(&d, &case.cfg);
            o.stats.inc("handle_order_second_opens");
            match (&second, pins) {
                (Err(e), true) if e.contains("Locked") => {
                    if case.cfg.workers == 0 && crate::fsutil::tree_digest(&d) != digest {
                        return Err(Violation::new("single-instance", "refused second open modified the directory".into()));
                    }
                }
                (Err(e), true) => return Err(Violation::new("single-instance", format!("second open failed with {e}, expected Locked"))),
                (Ok(_), true) => {
                    let kinds: Vec<&str> = handles.iter().map(|h| match h { H::Db(_) => "Database", H::Sw(_) => "SingleWriterTxDatabase", H::Opt(_) => "OptimisticTxDatabase", H::Ks(_) => "Keyspace", H::Snap(_) => "Snapshot", H::Iter(_) => "Iter" }).collect();
                    return Err(Violation::new("single-instance", format!("a second open succeeded while these handles were still alive: {kinds:?}")));
                }
                (_, false) => {}
            }
            drop(second);
            let i = r.usize(handles.len());
            handles.remove(i);
        }
        // last handle gone: open must succeed at once with everything acknowledged
        let mut inst = crate::inst::Instance::open(&d, &case.cfg).map_err(|e| Violation::new("single-instance", format!("open after the last handle was dropped failed: {e}")))?;
        inst.open_ks(&case.cfg, 0, &case.cfg.opts[0]).map_err(|e| Violation::new("unexpected-error", e))?;
        let ks = inst.k(0).unwrap().clone();
        let snap = inst.db.snapshot();
        for (k, v) in &expect {
            let got = snap.get(&ks, k).map_err(|e| Violation::new("unexpected-error", format!("{e:?}")))?;
            if got.as_deref() != Some(&v[..]) {
                return Err(Violation::new("single-instance", format!("after dropping every handle and reopening, key {} reads {:?}", crate::model::show(k), got.map(|x| crate::model::show(&x)))));
            }
        }
        Ok(())
    }));
    match res {
        Ok(Ok(())) => {}
        Ok(Err(v)) => o.violation = Some(v),
        Err(_) => {
            let (loc, msg) = crate::LAST_PANIC.lock().unwrap().clone().unwrap_or_default();
            o.violation = Some(Violation::new("panic", format!("panic in library code at {loc}: {msg}")));
        }
    }
    drop(handles);
    o.evals += 1;
}

pub fn run_c17(case: &Case, dir: PathBuf) -> Outcome {
    // the lifecycle part is an ordinary sequential run (SecondOpen / Reopen ops carry the checks)
    let live = dir.join("main");
    let mut o = super::seqprops::run_seq(case, live.clone());
    if o.violation.is_some() || o.harness_error.is_some() {
        return o;
    }
    handle_order(case, &dir, &mut o);
    if o.violation.is_some() {
        return o;
    }
    let Fault::Marker { bytes } = &case.fault else {
        return o;
    };
    // the directory is now closed and populated; try every marker content
    let variants: Vec<Option<Vec<u8>>> = match bytes {
        Some(b) if b == b"absent" => vec![None],
        Some(b) => vec![Some(b.clone())],
        None => (0..=255u8).filter(|v| *v != 3).map(|v| Some(vec![b'F', b'J', b'L', v])).collect(),
    };
    let marker = live.join("version");
    let original = crate::interpose::bypass(|| std::fs::read(&marker).unwrap_or_default());
    for v in variants {
        crate::interpose::bypass(|| match &v {
            Some(b) => std::fs::write(&marker, b).unwrap(),
            None => {
                let _ = std::fs::remove_file(&marker);
            }
        });
        if let Some(b) = &v {
            // a valid v3 header followed by anything is still version 3
            if b.len() >= 4 && &b[..4] == b"FJL\x03" {
                continue;
            }
        }
        let before = crate::fsutil::tree_digest(&live);
        let files_before = crate::fsutil::list_files(&live);
        let r = std::panic::catch_unwind(std::panic::AssertUnwindSafe(|| crate::inst::Instance::open(&live, &case.cfg).map(|_| ())));
        let after = crate::fsutil::tree_digest(&live);
        let files_after = crate::fsutil::list_files(&live);
        o.evals += 1;
        o.stats.inc("marker_variants");
        let what = match &v {
            Some(b) => format!("version marker {b:?}"),
            None => "version marker absent".into(),
        };
        match r {
            Ok(Ok(())) => {
                o.violation = Some(Violation::new("incompatible-directory-opened", format!("{what}: the populated directory was opened instead of being refused")));
            }
            Ok(Err(_)) | Err(_) => {
                if before != after {
                    let added: Vec<_> = files_after.iter().filter(|f| !files_before.contains(f)).collect();
                    let removed: Vec<_> = files_before.iter().filter(|f| !files_after.contains(f)).collect();
                    o.violation = Some(Violation::new("refused-open-modified-directory", format!("{what}: the open was refused but the directory changed (added {added:?}, removed {removed:?})")));
                }
            }
        }
        if o.violation.is_some() {
            o.narrowed = Some(Fault::Marker { bytes: Some(v.unwrap_or_else(|| b"absent".to_vec())) });
            break;
        }
    }
    crate::interpose::bypass(|| std::fs::write(&marker, &original).ok());
    o
}
