//! Properties decided with fault injection on the libc seam:
//! C02 (process crash), C09 (power loss), C10 (journal eviction), C13 (I/O errors).

use super::*;
use crate::faults::{self, Mon, SharedMon, Snap};
use crate::gen::{Mix, Tier, G};
use crate::model::{Map, State};
use crate::rng::Rng;
use std::collections::{BTreeMap, BTreeSet};

fn mk_case(prop: &str, seed: u64, g: &G, program: Vec<Op>, fault: Fault, class: String) -> Case {
    Case {
        prop: prop.into(),
        seed,
        engine: Engine::Seq,
        cfg: g.cfg.clone(),
        program,
        threads: vec![],
        schedule: None,
        fault,
        class,
    }
}

fn pick_kind(r: &mut Rng) -> DbKind {
    match r.below(4) {
        0 | 1 => DbKind::Plain,
        2 => DbKind::SingleWriter,
        _ => DbKind::Optimistic,
    }
}

/// C02: acknowledged writes survive a process crash, in commit order
pub fn gen_c02(tier: Tier, seed: u64) -> Case {
    let mut r = Rng::stream(seed, "workload");
    let n_names = r.range(1, 3) as usize;
    let n_keys = r.range(2, 5) as usize;
    let kind = pick_kind(&mut r);
    let mut g = G::new(&mut r, n_names, n_keys, kind, true);
    g.cfg.check_every = 0;
    let dens = *g.r.pick(&[1u32, 4, 10]);
    let mix = Mix {
        insert: 10,
        remove: 3,
        batch: 4,
        clear: 1,
        tx: 3,
        txks: if kind == DbKind::Plain { 0 } else { 1 },
        maint: dens,
        ks_life: 1,
        reopen: 1,
        ..Mix::zero()
    };
    let n_ops = match tier {
        Tier::Quick => g.r.range(4, 14),
        Tier::Thorough => g.r.range(4, 30),
    } as usize;
    let init = g.r.range(1, n_names as u64) as usize;
    let mut program = g.create_initial(init);
    // one run in twelve starts with a dozen journal files on disk (ids with one and two digits)
    let many = n_names >= 2 && g.r.chance(1, 14);
    if many {
        program = g.create_initial(2);
        let pre = g.many_journals(0, 1);
        program.extend(pre);
    }
    program.extend(g.program(n_ops, &mix));
    if many && !program.iter().skip(30).any(|o| matches!(o, Op::Reopen)) {
        program.push(Op::Reopen);
        let v = g.val();
        program.push(Op::Insert { ks: 1, key: g.key(), val: v });
    }
    // a class that seals and evicts journals: crash points inside journal rotation, flush of
    // recovered memtables and journal deletion
    if g.r.chance(1, 3) {
        g.cfg.rotation_threshold = 512;
        let n = program.len();
        let mut extra = vec![];
        for _ in 0..g.r.range(2, 5) {
            if let Some(ks) = g.live_ks() {
                let sz = *g.r.pick(&[300u32, 600, 1000]);
                let comp = g.r.chance(1, 2);
                let key = g.key();
                let val = g.val_sized(sz, comp);
                extra.push(Op::Insert { ks, key, val });
                extra.push(Op::Rotate { ks });
                extra.push(Op::WorkerStep);
                if g.r.chance(1, 2) {
                    extra.push(Op::WorkerStep);
                }
            }
        }
        let at = g.r.usize(n.max(1));
        let tail = program.split_off(at.max(init.min(n)));
        program.extend(extra);
        program.extend(tail);
    }
    let torn = g.r.chance(2, 3);
    let class = format!("{}maint{}{}{}", if torn { "torn-" } else { "" }, dens, if g.cfg.rotation_threshold > 0 { "+jrot" } else { "" }, if many { "+many-journals" } else { "" });
    mk_case("C02", seed, &g, program, Fault::Crash { points: None, torn, nested: false }, class)
}

/// C09: persist(SyncData|SyncAll) makes earlier writes power-loss durable
pub fn gen_c09(tier: Tier, seed: u64) -> Case {
    let mut r = Rng::stream(seed, "workload");
    let n_names = r.range(1, 2) as usize;
    let n_keys = r.range(2, 5) as usize;
    let kind = pick_kind(&mut r);
    let mut g = G::new(&mut r, n_names, n_keys, kind, true);
    g.cfg.check_every = 0;
    g.cfg.manual_persist = g.r.chance(1, 3);
    let mix = Mix {
        insert: 10,
        remove: 2,
        batch: 4,
        clear: 1,
        tx: 2,
        maint: *g.r.pick(&[0u32, 3, 8]),
        persist: 6,
        reopen: 1,
        ..Mix::zero()
    };
    let n_ops = match tier {
        Tier::Quick => g.r.range(4, 14),
        Tier::Thorough => g.r.range(4, 30),
    } as usize;
    let mut program = g.create_initial(n_names);
    program.extend(g.program(n_ops, &mix));
    let variant = g.r.below(2) as u8;
    let class = format!("{}v{}{}", if g.cfg.manual_persist { "manual-" } else { "" }, variant, if g.cfg.rotation_threshold > 0 { "+jrot" } else { "" });
    let vseed = g.r.next();
    // last sentence of C09: with manual journal persist (database and every keyspace),
    // persist(Buffer) - or anything stronger - is what makes earlier writes survive a PROCESS
    // crash. Same programs, process-crash states instead of power-loss states.
    if g.r.chance(1, 4) {
        g.cfg.manual_persist = true;
        for o in &mut g.cfg.opts {
            o.manual_persist = true;
        }
        let torn = g.r.chance(1, 2);
        let class = format!("manual-crash{}", if torn { "-torn" } else { "" });
        return mk_case("C09", seed, &g, program, Fault::Crash { points: None, torn, nested: false }, class);
    }
    mk_case("C09", seed, &g, program, Fault::Power { points: None, variant, vseed }, class)
}

/// C10: a journal file is deleted only when nothing in it is still needed
pub fn gen_c10(tier: Tier, seed: u64) -> Case {
    let mut r = Rng::stream(seed, "workload");
    let n_names = r.range(2, 3) as usize;
    let n_keys = r.range(3, 6) as usize;
    let mut g = G::new(&mut r, n_names, n_keys, DbKind::Plain, true);
    g.cfg.check_every = 0;
    g.cfg.rotation_threshold = *g.r.pick(&[512u64, 2048, 4096]);
    g.sizes = vec![100, 600, 1000, 1000, 24];
    let with_clear = g.r.chance(1, 5);
    let with_delete = g.r.chance(1, 4);
    let n_rounds = match tier {
        Tier::Quick => g.r.range(3, 8),
        Tier::Thorough => g.r.range(3, 16),
    };
    let mut program = g.create_initial(n_names);
    let lag = g.r.usize(n_names) as u8;
    for _ in 0..n_rounds {
        // write to every keyspace alternately
        for _ in 0..g.r.range(1, 4) {
            let ks = g.live_ks().unwrap_or(0);
            let key = g.key();
            match g.r.below(6) {
                0 => program.push(Op::Remove { ks, key }),
                1 => program.push(g.batch(3, false)),
                _ => program.push(Op::Insert { ks, key, val: g.val() }),
            }
        }
        if with_clear && g.r.chance(1, 4) {
            if let Some(ks) = g.live_ks() {
                program.push(Op::Clear { ks });
            }
        }
        // rotate / flush some keyspaces, one deliberately lagging
        for ks in 0..n_names as u8 {
            if !g.exists[ks as usize] {
                continue;
            }
            if ks == lag && g.r.chance(3, 4) {
                continue;
            }
            if g.r.chance(1, 2) {
                program.push(Op::Rotate { ks });
            }
        }
        for _ in 0..g.r.range(0, 4) {
            program.push(Op::WorkerStep);
        }
        if with_delete && g.r.chance(1, 6) {
            program.extend(g.ks_life());
        }
        if g.r.chance(1, 8) {
            program.push(Op::Reopen);
        }
    }
    program.push(Op::Quiesce);
    program.push(Op::Quiesce);
    program.push(Op::Check);
    let class = format!("{}{}rot{}", if with_clear { "clear-" } else { "" }, if with_delete { "delete-" } else { "" }, g.cfg.rotation_threshold);
    mk_case("C10", seed, &g, program, Fault::Crash { points: Some(vec![]), torn: false, nested: false }, class)
}

/// C13: fail-stop after a journal I/O failure
pub fn gen_c13(tier: Tier, seed: u64) -> Case {
    let mut r = Rng::stream(seed, "workload");
    let n_names = r.range(1, 2) as usize;
    let n_keys = r.range(2, 4) as usize;
    let kind = pick_kind(&mut r);
    let mut g = G::new(&mut r, n_names, n_keys, kind, true);
    g.cfg.check_every = 0;
    // make faults land inside write_raw / write_batch / write_clear as well: incompressible
    // values larger than the 8 KiB BufWriter, or journal compression off
    g.sizes = vec![8, 24, 100, 1000, 9000, 9000, 20000];
    g.incompressible_pct = *g.r.pick(&[50u64, 100]);
    g.cfg.journal_lz4 = g.r.chance(1, 2);
    let mix = Mix {
        insert: 8,
        remove: 2,
        batch: 5,
        clear: 2,
        tx: 3,
        persist: 3,
        maint: *g.r.pick(&[0u32, 2]),
        ..Mix::zero()
    };
    let n_ops = match tier {
        Tier::Quick => g.r.range(3, 9),
        Tier::Thorough => g.r.range(3, 16),
    } as usize;
    let mut program = g.create_initial(n_names);
    // one program in three runs on a database that was reopened (recovered keyspaces are built by
    // other code than fresh ones and must share the database's poison flag as well)
    let recovered = g.r.chance(1, 3);
    if recovered {
        let v = g.val_sized(8, true);
        program.push(Op::Insert { ks: 0, key: g.key(), val: v });
        program.push(Op::Reopen);
    }
    program.extend(g.program(n_ops, &mix));
    let kind_f = match g.r.below(3) {
        0 => IoKind::Eio,
        1 => IoKind::Enospc,
        _ => IoKind::Short(g.r.below(5000) as u32),
    };
    let target = match g.r.below(8) {
        0 | 1 | 2 | 3 => IoTarget::JournalWrite,
        4 | 5 => IoTarget::JournalSync,
        6 => IoTarget::JournalCreate,
        _ => IoTarget::JournalTruncate,
    };
    let persistent = g.r.chance(1, 2);
    if matches!(target, IoTarget::JournalCreate | IoTarget::JournalTruncate) {
        g.cfg.rotation_threshold = 512;
        program.push(Op::Quiesce);
    }
    let class = format!("{:?}-{:?}-{}{}", target, match kind_f { IoKind::Short(_) => "Short".to_string(), ref k => format!("{k:?}") }, if persistent { "persistent" } else { "transient" }, if recovered { "-recovered" } else { "" });
    mk_case("C13", seed, &g, program, Fault::Io { kind: kind_f, target, n: None, persistent }, class)
}

// ------------------------------------------------------------------------------------------

fn per_key_allowed(states: &[State], real: &BTreeMap<KsIdx, Map>, cfg: &Cfg, must_exist: &State) -> Result<(), String> {
    // every keyspace that existed at the durable point must exist
    for ks in must_exist.ks.keys() {
        if states.iter().all(|s| s.ks.contains_key(ks)) && !real.contains_key(ks) {
            return Err(format!("keyspace {:?} is missing", cfg.names[*ks as usize]));
        }
    }
    for (ks, m) in real {
        if !states.iter().any(|s| s.ks.contains_key(ks)) {
            return Err(format!("keyspace {:?} exists but never existed in the allowed window", cfg.names[*ks as usize]));
        }
        let mut keys: BTreeSet<&Vec<u8>> = m.keys().collect();
        for s in states {
            if let Some(sm) = s.map(*ks) {
                keys.extend(sm.keys());
            }
        }
        for k in keys {
            let rv = m.get(k);
            let ok = states.iter().any(|s| s.map(*ks).map(|sm| sm.get(k)) == Some(rv) || (s.map(*ks).is_none() && rv.is_none()));
            if !ok {
                return Err(format!(
                    "key {} of {:?} reads {:?}, which it never held at or after the last durable point (allowed: {:?})",
                    crate::model::show(k),
                    cfg.names[*ks as usize],
                    rv.map(|x| crate::model::show(x)),
                    states.iter().map(|s| s.map(*ks).and_then(|sm| sm.get(k)).map(|x| crate::model::show(x))).collect::<Vec<_>>()
                ));
            }
        }
    }
    Ok(())
}

pub struct SnapCheck<'a> {
    pub cfg: &'a Cfg,
    pub stats: &'a mut crate::exec::Stats,
    pub seen: BTreeSet<(u64, usize, usize)>,
    /// C11: do every follow-up check on every state instead of on a (call-index selected) quarter
    pub all_followups: bool,
}

impl SnapCheck<'_> {
    /// Reopens a crash / power-loss state with the real code and compares it with the allowed
    /// history window `states[lo..=hi]` (prefix states). `strict`: must equal one prefix state;
    /// otherwise per-key membership (power loss without a sync in between).
    pub fn check(&mut self, s: &Snap, history: &[State], lo: usize, hi: usize, strict: bool, clause: &str) -> Result<(), Violation> {
        let digest = crate::fsutil::tree_digest(&s.dir);
        if !self.seen.insert((digest, lo, hi)) {
            self.stats.inc("states_deduplicated");
            crate::fsutil::remove_tree(&s.dir);
            return Ok(());
        }
        self.stats.inc("states_checked");
        // the continuation (b) runs on a copy that has NOT been opened before: recovery, the
        // further writes and the close then happen in one session (an open in between can heal
        // what a repair left behind)
        let continue_it = (self.all_followups || s.call % 4 == 2) && !self.cfg.manual_persist && self.cfg.opts.iter().all(|o| !o.manual_persist) && self.cfg.filtered.is_empty();
        let pristine = s.dir.with_extension("pristine");
        if continue_it && crate::fsutil::copy_tree(&s.dir, &pristine).is_err() {
            crate::fsutil::remove_tree(&pristine);
        }
        let res = std::panic::catch_unwind(std::panic::AssertUnwindSafe(|| faults::read_dir_state(&s.dir, self.cfg)));
        if res.as_ref().map_or(true, |r| r.is_err()) {
            crate::fsutil::remove_tree(&pristine);
        }
        let real = match res {
            Ok(Ok(r)) => r,
            Ok(Err(e)) => {
                return Err(Violation::new(clause, format!("{} (call #{}): reopening fails or is inconsistent: {e}", s.desc, s.call)));
            }
            Err(_) => {
                let (loc, msg) = crate::LAST_PANIC.lock().unwrap().clone().unwrap_or_default();
                return Err(Violation::new(clause, format!("{} (call #{}): reopening panics at {loc}: {msg}", s.desc, s.call)));
            }
        };
        let window = &history[lo..=hi];
        let matched = window.iter().position(|st| faults::state_maps(st) == real);
        match matched {
            Some(j) => {
                if j + lo > lo {
                    self.stats.inc("states_with_inflight_op_applied");
                }
            }
            None => {
                if strict {
                    return Err(Violation::new(
                        clause,
                        format!(
                            "{} (call #{}): recovered content {} is not the state after any allowed prefix of committed ops (acknowledged: {}; with op in flight: {})",
                            s.desc,
                            s.call,
                            faults::brief_maps(&real),
                            history[lo].brief(),
                            history[hi].brief()
                        ),
                    ));
                }
                self.stats.inc("power_states_not_prefix_but_durable");
                if let Err(e) = per_key_allowed(window, &real, self.cfg, &history[lo]) {
                    return Err(Violation::new(clause, format!("{} (call #{}): {e}", s.desc, s.call)));
                }
            }
        }
        // recovery must leave a healthy database: (a) reopen once more, same content
        if self.all_followups || s.call % 4 == 0 {
            let again = std::panic::catch_unwind(std::panic::AssertUnwindSafe(|| faults::read_dir_state(&s.dir, self.cfg)));
            match again {
                Ok(Ok(r2)) if r2 == real => {
                    self.stats.inc("states_reopened_twice");
                }
                Ok(Ok(r2)) => {
                    return Err(Violation::new(clause, format!("{}: second reopen of the recovered directory shows {} instead of {}", s.desc, faults::brief_maps(&r2), faults::brief_maps(&real))));
                }
                Ok(Err(e)) => {
                    return Err(Violation::new(clause, format!("{}: second reopen of the recovered directory fails: {e}", s.desc)));
                }
                Err(_) => {
                    return Err(Violation::new(clause, format!("{}: second reopen of the recovered directory panics", s.desc)));
                }
            }
        }
        // (b) life goes on - write, close, reopen (changes the directory, hence last)
        if continue_it && pristine.exists() {
            let salt = u64::from(s.call);
            let r = std::panic::catch_unwind(std::panic::AssertUnwindSafe(|| {
                let expect = faults::write_after_recovery(&pristine, self.cfg, &real, salt)?;
                let got = faults::read_dir_state(&pristine, self.cfg)?;
                Ok::<_, String>((expect, got))
            }));
            crate::fsutil::remove_tree(&pristine);
            match r {
                Ok(Ok((expect, got))) if expect == got => {
                    self.stats.inc("states_continued_after_recovery");
                }
                Ok(Ok((expect, got))) => {
                    return Err(Violation::new(clause, format!("{}: writes acknowledged after the recovery are not recovered by the next open: it shows {} instead of {}", s.desc, faults::brief_maps(&got), faults::brief_maps(&expect))));
                }
                Ok(Err(e)) => {
                    return Err(Violation::new(clause, format!("{}: writing to / reopening the recovered directory fails: {e}", s.desc)));
                }
                Err(_) => {
                    let (loc, msg) = crate::LAST_PANIC.lock().unwrap().clone().unwrap_or_default();
                    return Err(Violation::new(clause, format!("{}: writing to / reopening the recovered directory panics at {loc}: {msg}", s.desc)));
                }
            }
        }
        crate::fsutil::remove_tree(&s.dir);
        Ok(())
    }
}

fn narrowed(fault: &Fault, call: u32) -> Fault {
    match fault {
        Fault::Crash { torn, nested, .. } => Fault::Crash { points: Some(vec![call]), torn: *torn, nested: *nested },
        Fault::Power { variant, vseed, .. } => Fault::Power { points: Some(vec![call]), variant: *variant, vseed: *vseed },
        f => f.clone(),
    }
}

fn sync_dur(d: &Option<Dur>) -> bool {
    matches!(d, Some(Dur::SyncAll) | Some(Dur::SyncData))
}

/// Runner for C02 / C09 / C10: program under the monitor; every snapshot taken during op i is
/// checked right after op i against the allowed window.
pub fn run_faulty(case: &Case, dir: PathBuf) -> Outcome {
    crate::hooks::set_mode(crate::hooks::MODE_SEQ);
    crate::hooks::set_rotation_threshold(case.cfg.rotation_threshold);
    let live = dir.join("live");
    let scratch = dir.join("scratch");
    crate::interpose::bypass(|| std::fs::create_dir_all(&scratch).ok());
    let vseed = match &case.fault {
        Fault::Power { vseed, .. } => *vseed,
        _ => case.seed,
    };
    let mon: SharedMon = Mon::new(&live, &scratch, case.fault.clone(), vseed);
    faults::install(&mon);
    mon.lock().unwrap().after_jnl_unlink = case.prop == "C10";
    mon.lock().unwrap().keep_log = std::env::var_os("FJSIM_LOG").is_some();
    let mut ex = Exec::new(&case.cfg, live.clone());
    let is_power = matches!(case.fault, Fault::Power { .. });
    let is_c10 = case.prop == "C10";
    // C09 with process-crash states: manual journal persist everywhere; only explicit persist
    // points (persist(any mode), batch / transaction with an explicit durability, clean reopen,
    // journal rotation) promise anything
    let manual_crash = case.prop == "C09" && !is_power;
    let clause = match case.prop.as_str() {
        "C02" => "crash-prefix",
        "C11" => "crash-then-supersede",
        "C09" if manual_crash => "manual-persist-crash-durability",
        "C09" => "power-loss-durability",
        "C10" => "journal-eviction",
        _ => "crash",
    };
    let mut violation: Option<Violation> = None;
    let mut narrowed_fault = None;
    let mut chk_stats = crate::exec::Stats::default();
    // (the selection must be the same in the sweep and in the replay of one narrowed point: an
    // extra reopen in between can heal what the continuation would have exposed)
    let all_followups = case.prop == "C11";
    let mut seen = BTreeSet::new();
    // power loss: index into history below which everything is known durable
    let mut durable = 0usize;
    let mut last_unlink_count = 0usize;
    let mut unlinked_ids: Vec<u64> = vec![];

    // the sync images must cover the directory from its creation on
    mon.lock().unwrap().enabled = is_power;
    let saved_fault = mon.lock().unwrap().fault.clone();
    if is_power {
        // no snapshots while creating, only images
        mon.lock().unwrap().fault = Fault::Power { points: Some(vec![]), variant: 0, vseed };
    }
    if let Err(v) = ex.open() {
        violation = Some(v);
    }
    mon.lock().unwrap().fault = saved_fault;
    mon.lock().unwrap().enabled = false;

    if violation.is_none() {
        'ops: for (i, op) in case.program.iter().enumerate() {
            let before = ex.acked();
            let creates_before = mon.lock().unwrap().stats.c.get("probe_journal_created").copied().unwrap_or(0);
            mon.lock().unwrap().enabled = true;
            let r = ex.step(i, op);
            mon.lock().unwrap().enabled = false;
            let after = ex.acked();
            if let Err(v) = r {
                violation = Some(v);
                break;
            }
            let snaps: Vec<Snap> = std::mem::take(&mut mon.lock().unwrap().snaps);
            let mut sc = SnapCheck { cfg: &case.cfg, stats: &mut chk_stats, seen: std::mem::take(&mut seen), all_followups };
            for s in &snaps {
                let (lo, hi, strict) = if is_power || manual_crash { (durable.min(before), after, false) } else { (before, after, true) };
                if let Err(mut v) = sc.check(s, &ex.history, lo, hi, strict, clause) {
                    v.op_index = Some(i);
                    v.detail = format!("during op #{i} {op:?}: {}", v.detail);
                    violation = Some(v);
                    narrowed_fault = Some(narrowed(&case.fault, s.call));
                    seen = sc.seen;
                    for s in &snaps {
                        crate::fsutil::remove_tree(&s.dir);
                    }
                    break 'ops;
                }
            }
            seen = sc.seen;
            // durable lower bound (power loss)
            if manual_crash {
                let rotated = mon.lock().unwrap().stats.c.get("probe_journal_created").copied().unwrap_or(0) > creates_before;
                let flushed = match op {
                    // (a failed persist would have ended the run as unexpected-error)
                    Op::Persist { .. } => true,
                    Op::Batch { dur: Some(_), .. } => after > before,
                    Op::TxEnd { slot, end: TxEnd::Commit } => {
                        after > before
                            && case.program[..i].iter().rev().find_map(|o| match o {
                                Op::TxBegin { slot: s2, dur } if s2 == slot => Some(dur.is_some()),
                                _ => None,
                            }) == Some(true)
                    }
                    Op::Reopen => true,
                    _ => false,
                };
                if flushed {
                    durable = after;
                    chk_stats.inc("manual_persist_points");
                } else if rotated {
                    durable = durable.max(before);
                }
            }
            if is_power {
                let rotated = mon.lock().unwrap().stats.c.get("probe_journal_created").copied().unwrap_or(0) > creates_before;
                let synced = match op {
                    Op::Persist { mode: Dur::SyncAll | Dur::SyncData } => true,
                    Op::Batch { dur, .. } => sync_dur(dur) && after > before,
                    Op::TxEnd { end: TxEnd::Commit, .. } => false,
                    Op::Reopen => true,
                    _ => false,
                };
                if synced {
                    durable = after;
                } else if rotated {
                    durable = durable.max(before);
                }
            }
            // C10: journal unlinks must be oldest first
            if is_c10 {
                let m = mon.lock().unwrap();
                for (_, p) in &m.jnl_unlinks[last_unlink_count..] {
                    let id: u64 = p.trim_end_matches(".jnl").parse().unwrap_or(u64::MAX);
                    if let Some(prev) = unlinked_ids.last() {
                        if id < *prev {
                            violation = Some(Violation::new("journal-eviction", format!("journal {id} was deleted after journal {prev}: not oldest first")));
                        }
                    }
                    unlinked_ids.push(id);
                }
                last_unlink_count = m.jnl_unlinks.len();
                drop(m);
                if violation.is_some() {
                    break;
                }
                if matches!(op, Op::Quiesce) && i + 2 >= case.program.len() {
                    // after everything has been flushed the number of journals returns to one
                    if let Some(inst) = &ex.inst {
                        let jc = inst.db.journal_count();
                        let files = crate::fsutil::list_files(&live).iter().filter(|f| f.ends_with(".jnl")).count();
                        chk_stats.inc("journal_count_checks");
                        if (jc != 1 || files != 1) && ex.acked() > 0 {
                            // why is the oldest sealed journal still there?
                            let wms = fjall::verif::sealed_journal_watermarks(&inst.db);
                            let mut tag = String::new();
                            if let Some((path, w)) = wms.first() {
                                let pinned: Vec<String> = w
                                    .iter()
                                    .filter(|(_, deleted, lsn, persisted, unflushed)| !deleted && !unflushed && persisted.is_none_or(|p| p < *lsn))
                                    .map(|(n, _, lsn, persisted, _)| format!("{n}: watermark {lsn}, persisted {persisted:?}, nothing left to flush"))
                                    .collect();
                                let unflushed: Vec<&String> = w.iter().filter(|x| x.4 && !x.1).map(|x| &x.0).collect();
                                if !pinned.is_empty() && unflushed.is_empty() {
                                    tag = format!(" [pinned-by-persisted-seqno-below-watermark {path}: {}]", pinned.join("; "));
                                } else if !unflushed.is_empty() {
                                    tag = format!(" [keyspaces with unflushed data: {unflushed:?}]");
                                } else {
                                    tag = " [every watermark of the oldest sealed journal is satisfied]".into();
                                }
                            }
                            let v = Violation::new(
                                "journal-count",
                                format!("after flushing every keyspace journal_count() = {jc} and {files} journal files exist, expected 1{tag}"),
                            );
                            violation = Some(v);
                            break;
                        }
                    }
                }
            }
        }
    }
    // final state: a crash after the last op
    if violation.is_none() && manual_crash {
        let d = scratch.join("final");
        if crate::fsutil::copy_tree(&live, &d).is_ok() {
            let s = Snap { dir: d, call: u32::MAX, kind: "crash".into(), desc: "after the last op".into(), torn: None };
            let n = ex.acked();
            let mut sc = SnapCheck { cfg: &case.cfg, stats: &mut chk_stats, seen: std::mem::take(&mut seen), all_followups };
            if let Err(v) = sc.check(&s, &ex.history, durable.min(n), n, false, clause) {
                violation = Some(v);
            }
        }
    } else if violation.is_none() && !is_power {
        let d = scratch.join("final");
        if crate::fsutil::copy_tree(&live, &d).is_ok() {
            let s = Snap { dir: d, call: u32::MAX, kind: "crash".into(), desc: "after the last op".into(), torn: None };
            let n = ex.acked();
            let mut sc = SnapCheck { cfg: &case.cfg, stats: &mut chk_stats, seen: std::mem::take(&mut seen), all_followups };
            if let Err(v) = sc.check(&s, &ex.history, n, n, true, clause) {
                violation = Some(v);
            }
        }
    }
    ex.close();
    faults::uninstall();
    let m = mon.lock().unwrap();
    let mut stats = ex.stats.clone();
    stats.merge(&m.stats);
    stats.merge(&chk_stats);
    let mut hash = crate::rng::mix(m.hash ^ ex.model.digest());
    hash = crate::rng::mix(hash ^ u64::from(m.calls));
    let evals = 1 + chk_stats.c.get("states_checked").copied().unwrap_or(0);
    let calls = m.calls;
    if m.keep_log {
        for l in &m.log {
            eprintln!("{l}");
        }
    }
    drop(m);
    let mut o = Outcome::ok(stats, hash);
    o.violation = violation;
    o.narrowed = narrowed_fault;
    o.evals = evals;
    o.shape = crate::rng::mix(shape_hash(case) ^ u64::from(calls));
    o.nontrivial = evals > 1 && case.program.iter().any(Op::is_write);
    o
}
