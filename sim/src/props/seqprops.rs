//! SEQ-engine properties that need no fault injection: C01 (and the shared sequential runner).

use super::*;
use crate::gen::{Mix, Tier, G};
use crate::rng::Rng;

pub fn gen_c01(tier: Tier, seed: u64) -> Case {
    let mut r = Rng::stream(seed, "workload");
    let n_names = r.range(1, 3) as usize;
    let n_keys = r.range(3, 8) as usize;
    let mut g = G::new(&mut r, n_names, n_keys, DbKind::Plain, true);
    let dens = *g.r.pick(&[0u32, 2, 6, 14, 30]);
    let mix = Mix {
        insert: 10,
        remove: 4,
        remove_weak: 1,
        batch: 3,
        clear: *g.r.pick(&[0, 1, 1]),
        ingest: *g.r.pick(&[0, 1, 2]),
        read: 5,
        scan: 4,
        maint: dens,
        check: 1,
        ..Mix::zero()
    };
    let n_ops = match tier {
        Tier::Quick => g.r.range(10, 45),
        Tier::Thorough => g.r.range(10, 80),
    } as usize;
    let mut program = g.create_initial(n_names);
    let fifo = g.r.chance(1, 10);
    if fifo {
        g.cfg.opts[0].strategy = Strategy::Fifo { limit: 1 << 40 };
        program.extend(g.fifo_program(0, dens.max(2)));
    } else {
        program.extend(g.program(n_ops, &mix));
    }
    program.push(Op::Check);
    let class = format!(
        "{}maint{}{}",
        if fifo { "fifo-" } else { "" },
        dens,
        if g.cfg.rotation_threshold > 0 { "+jrot" } else { "" }
    );
    Case {
        prop: "C01".into(),
        seed,
        engine: Engine::Seq,
        cfg: g.cfg.clone(),
        program,
        threads: vec![],
        schedule: None,
        fault: Fault::None,
        class,
    }
}

/// Runs a purely sequential, fault-free case: every op checked against the model.
pub fn run_seq(case: &Case, dir: PathBuf) -> Outcome {
    crate::hooks::set_mode(crate::hooks::MODE_SEQ);
    crate::hooks::set_rotation_threshold(case.cfg.rotation_threshold);
    let mut ex = Exec::new(&case.cfg, dir);
    let mut violation = None;
    let mut hash = 0u64;
    if let Err(v) = ex.open() {
        violation = Some(v);
    } else {
        for (i, op) in case.program.iter().enumerate() {
            match ex.step(i, op) {
                Ok(info) => {
                    hash = crate::rng::mix(hash ^ u64::from(info.acked) ^ (i as u64) << 1);
                }
                Err(v) => {
                    violation = Some(v);
                    break;
                }
            }
        }
    }
    hash = crate::rng::mix(hash ^ ex.model.digest());
    for (k, v) in &ex.stats.c {
        hash = crate::rng::mix(hash ^ crate::rng::hash_str(k) ^ *v);
    }
    ex.close();
    let writes = case.program.iter().filter(|o| o.is_write()).count();
    let maint = ex.stats.c.get("worker_steps").copied().unwrap_or(0)
        + ex.stats.c.get("rotations").copied().unwrap_or(0)
        + ex.stats.c.get("major_compactions").copied().unwrap_or(0)
        + ex.stats.c.get("reopens").copied().unwrap_or(0);
    let mut o = Outcome::ok(ex.stats.clone(), hash);
    o.violation = violation;
    o.shape = shape_hash(case);
    o.nontrivial = writes > 0 && maint > 0;
    o.evals = 1 + ex.stats.c.get("cross_checks").copied().unwrap_or(0);
    o
}
