//! SEQ-engine properties that need no fault injection: C01 (and the shared sequential runner).

use super::*;
use crate::gen::{Mix, Tier, G};
use crate::rng::Rng;

pub fn gen_c01(tier: Tier, seed: u64) -> Case {
    let mut r = Rng::stream(seed, "workload");
    let n_names = r.range(1, 3) as usize;
    let n_keys = r.range(3, 8) as usize;
    let mut g = G::new(&mut r, n_names, n_keys, DbKind::Plain, true);
    let dens = *g.r.pick(&[0u32, 2, 6, 14, 30]);
    let mix = Mix {
        insert: 10,
        remove: 4,
        remove_weak: 1,
        batch: 3,
        clear: *g.r.pick(&[0, 1, 1]),
        ingest: *g.r.pick(&[0, 1, 2]),
        read: 5,
        scan: 4,
        maint: dens,
        check: 1,
        ..Mix::zero()
    };
    let n_ops = match tier {
        Tier::Quick => g.r.range(10, 45),
        Tier::Thorough => g.r.range(10, 80),
    } as usize;
    let mut program = g.create_initial(n_names);
    let fifo = g.r.chance(1, 10);
    if fifo {
        g.cfg.opts[0].strategy = Strategy::Fifo { limit: 1 << 40 };
        program.extend(g.fifo_program(0, dens.max(2)));
    } else {
        program.extend(g.program(n_ops, &mix));
    }
    program.push(Op::Check);
    let class = format!(
        "{}maint{}{}",
        if fifo { "fifo-" } else { "" },
        dens,
        if g.cfg.rotation_threshold > 0 { "+jrot" } else { "" }
    );
    Case {
        prop: "C01".into(),
        seed,
        engine: Engine::Seq,
        cfg: g.cfg.clone(),
        program,
        threads: vec![],
        schedule: None,
        fault: Fault::None,
        class,
    }
}

/// Runs a purely sequential, fault-free case: every op checked against the model.
pub fn run_seq(case: &Case, dir: PathBuf) -> Outcome {
    crate::hooks::set_mode(crate::hooks::MODE_SEQ);
    crate::hooks::set_rotation_threshold(case.cfg.rotation_threshold);
    let mut ex = Exec::new(&case.cfg, dir);
    ex.check_option_behaviour = case.prop == "C16";
    let mut violation = None;
    let mut hash = 0u64;
    if let Err(v) = ex.open() {
        violation = Some(v);
    } else {
        for (i, op) in case.program.iter().enumerate() {
            match ex.step(i, op) {
                Ok(info) => {
                    hash = crate::rng::mix(hash ^ u64::from(info.acked) ^ (i as u64) << 1);
                }
                Err(v) => {
                    violation = Some(v);
                    break;
                }
            }
        }
    }
    // C07: the committed transactions must be serialisable in an order consistent with real time
    if violation.is_none() && case.prop == "C07" && ex.inst.is_some() {
        if let Some(init) = ex.tx_initial.clone() {
            let r = crate::serial::check(&init, &ex.txlog, &case.cfg.keys, &ex.model);
            ex.stats.add("serial_orders_explored", r.explored);
            ex.stats.add("serial_txs", ex.txlog.iter().filter(|t| t.committed == Some(true)).count() as u64);
            if !r.ok {
                violation = Some(Violation::new("not-serialisable", format!("no serial order consistent with real time explains the committed transactions: {}", r.explanation)));
            }
        }
    }
    hash = crate::rng::mix(hash ^ ex.model.digest());
    if case.cfg.workers == 0 {
        // with real (unscheduled) worker threads only API-level results are reproducible
        for (k, v) in &ex.stats.c {
            hash = crate::rng::mix(hash ^ crate::rng::hash_str(k) ^ *v);
        }
    }
    ex.close();
    let writes = case.program.iter().filter(|o| o.is_write()).count();
    let maint = ex.stats.c.get("worker_steps").copied().unwrap_or(0)
        + ex.stats.c.get("rotations").copied().unwrap_or(0)
        + ex.stats.c.get("major_compactions").copied().unwrap_or(0)
        + ex.stats.c.get("reopens").copied().unwrap_or(0);
    let mut o = Outcome::ok(ex.stats.clone(), hash);
    o.violation = violation;
    o.shape = shape_hash(case);
    o.nontrivial = writes > 0 && maint > 0;
    o.evals = 1 + ex.stats.c.get("cross_checks").copied().unwrap_or(0);
    o
}

fn base_case(prop: &str, seed: u64, g: &G, program: Vec<Op>, class: String) -> Case {
    Case {
        prop: prop.into(),
        seed,
        engine: Engine::Seq,
        cfg: g.cfg.clone(),
        program,
        threads: vec![],
        schedule: None,
        fault: Fault::None,
        class,
    }
}

fn pick_kind(r: &mut Rng) -> DbKind {
    match r.below(3) {
        0 => DbKind::Plain,
        1 => DbKind::SingleWriter,
        _ => DbKind::Optimistic,
    }
}

/// C04: close and reopen reproduces the same logical content
pub fn gen_c04(tier: Tier, seed: u64) -> Case {
    let mut r = Rng::stream(seed, "workload");
    let n_names = r.range(1, 3) as usize;
    let n_keys = r.range(3, 6) as usize;
    let kind = pick_kind(&mut r);
    let mut g = G::new(&mut r, n_names, n_keys, kind, true);
    let cls = g.r.below(4);
    let mix = Mix {
        insert: 8,
        remove: 3,
        batch: 2,
        clear: if cls == 1 { 4 } else { 1 },
        ingest: if cls == 0 { 6 } else { 1 },
        tx: 2,
        read: 2,
        scan: 1,
        maint: *g.r.pick(&[0u32, 3, 8]),
        reopen: 3,
        ks_life: if cls == 2 { 4 } else { 0 },
        check: 1,
        ..Mix::zero()
    };
    let n_ops = match tier {
        Tier::Quick => g.r.range(6, 30),
        Tier::Thorough => g.r.range(6, 60),
    } as usize;
    let mut program = g.create_initial(n_names);
    // one history in sixteen starts with a dozen journal files on disk
    let many = n_names >= 2 && cls != 2 && g.r.chance(1, 16);
    if many {
        let pre = g.many_journals(0, 1);
        program.extend(pre);
    }
    program.extend(g.program(n_ops, &mix));
    program.push(Op::Reopen);
    if many || g.r.chance(1, 2) {
        program.extend(g.program(5, &mix));
        if many {
            let v = g.val();
            program.push(Op::Insert { ks: 1, key: g.key(), val: v });
        }
        program.push(Op::Reopen);
    }
    let class = format!("{}{}", ["ingest-heavy", "clear-heavy", "ks-lifecycle", "mixed"][cls as usize], if many { "+many-journals" } else { "" });
    base_case("C04", seed, &g, program, class)
}

/// C11 class: a SEALED journal whose newest records are clears (they leave no trace in any tree)
/// is recovered; sequence numbers handed out afterwards must still lie above them, or a later
/// restart replays the old clear over newer, already flushed writes.
pub fn gen_c11_sealed_clear(_tier: Tier, seed: u64) -> Case {
    let mut r = Rng::stream(seed, "workload");
    let n_keys = r.range(2, 4) as usize;
    let mut g = G::new(&mut r, 3, n_keys, DbKind::Plain, false);
    g.cfg.check_every = 0;
    g.cfg.rotation_threshold = 512;
    g.cfg.journal_lz4 = false;
    for o in &mut g.cfg.opts {
        o.max_memtable = 0;
        o.blob = None;
    }
    // a = cleared keyspace, b = pin (never flushed, keeps the sealed journal registered),
    // c = busy keyspace whose flush rotates the journal
    let (a, b, c) = (0u8, 1u8, 2u8);
    let mut program = g.create_initial(3);
    let v = g.val_sized(8, true);
    program.push(Op::Insert { ks: b, key: g.key(), val: v });
    let v = g.val_sized(700, false);
    program.push(Op::Insert { ks: c, key: g.key(), val: v });
    for _ in 0..g.r.range(1, 3) {
        let v = g.val_sized(24, true);
        program.push(Op::Insert { ks: a, key: g.key(), val: v });
    }
    // (a clear consumes two sequence numbers when it happens and one when it is replayed: several
    // trailing clears leave record seqnos that replay alone does not climb back to)
    for _ in 0..g.r.range(3, 9) {
        program.push(Op::Clear { ks: a });
    }
    program.push(Op::Rotate { ks: c });
    program.push(Op::WorkerStep);
    if g.r.chance(1, 2) {
        program.push(Op::WorkerStep);
    }
    program.push(Op::Reopen);
    // after the restart: a new write to the cleared keyspace, flushed, its journal sealed too
    for _ in 0..g.r.range(1, 2) {
        let v = g.val_sized(700, false);
        program.push(Op::Insert { ks: a, key: g.key(), val: v });
    }
    program.push(Op::Rotate { ks: a });
    program.push(Op::WorkerStep);
    program.push(Op::WorkerStep);
    if g.r.chance(1, 2) {
        let v = g.val_sized(8, true);
        program.push(Op::Insert { ks: b, key: g.key(), val: v });
    }
    program.push(Op::Reopen);
    program.push(Op::Check);
    program.push(Op::Reopen);
    base_case("C11", seed, &g, program, "sealed-journal-ends-in-clear".into())
}

/// C11: after reopening, new writes supersede everything recovered
pub fn gen_c11(tier: Tier, seed: u64) -> Case {
    let mut r = Rng::stream(seed, "workload");
    let n_names = r.range(1, 3) as usize;
    let n_keys = r.range(2, 5) as usize;
    let kind = pick_kind(&mut r);
    let mut g = G::new(&mut r, n_names, n_keys, kind, false);
    g.cfg.check_every = 0;
    let mut program = g.create_initial(n_names);
    let cycles = g.r.range(1, if tier == Tier::Quick { 3 } else { 4 });
    let mut class = String::new();
    for _ in 0..cycles {
        // pre-reopen history class
        let cls = g.r.below(7);
        let names = ["journal-only", "tables-only", "both", "last-level", "ingested", "cleared", "tombstones-other-ks"];
        class.push_str(names[cls as usize]);
        class.push('/');
        let writes = Mix { insert: 6, remove: 2, batch: 2, tx: 1, ..Mix::zero() };
        let nw = g.r.range(2, 8) as usize;
        match cls {
            0 => program.extend(g.program(nw, &writes)),
            1 => {
                program.extend(g.program(nw, &writes));
                program.push(Op::Quiesce);
            }
            2 => {
                program.extend(g.program(nw, &writes));
                program.push(Op::Quiesce);
                program.extend(g.program(nw / 2 + 1, &writes));
            }
            3 => {
                program.extend(g.program(nw, &writes));
                program.push(Op::Quiesce);
                if let Some(ks) = g.live_ks() {
                    program.push(Op::MajorCompact { ks });
                }
            }
            4 => {
                program.extend(g.program(nw / 2, &writes));
                if let Some(ks) = g.live_ks() {
                    program.push(g.ingest(ks));
                }
            }
            5 => {
                program.extend(g.program(nw, &writes));
                if let Some(ks) = g.live_ks() {
                    program.push(Op::Clear { ks });
                }
                if g.r.chance(1, 2) {
                    program.push(Op::Quiesce);
                }
            }
            _ => {
                program.extend(g.program(nw, &writes));
                // highest seqno lives only in a tombstone of another keyspace
                let ks = (g.exists.len() - 1) as u8;
                let key = g.key();
                program.push(Op::Remove { ks, key });
            }
        }
        program.push(Op::Reopen);
        // after reopen: overwrite and remove recovered keys, open a snapshot, read everything
        let nk = g.cfg.keys.len() as u8;
        program.push(Op::ViewOpen { slot: 0, kind: ViewKind::Snapshot });
        for key in 0..nk {
            if let Some(ks) = g.live_ks() {
                match g.r.below(3) {
                    0 => program.push(Op::Insert { ks, key, val: g.val() }),
                    1 => program.push(Op::Remove { ks, key }),
                    _ => {}
                }
                program.push(Op::Read(ReadOp::Get { ks, key }));
            }
        }
        program.push(Op::ViewOpen { slot: 1, kind: ViewKind::Snapshot });
        for s in 0..2u8 {
            if let Some(ks) = g.live_ks() {
                program.push(Op::ViewRead { slot: s, op: ReadOp::Scan { ks, range: RangeSpec::All, mode: ScanMode::Fwd } });
            }
        }
        program.push(Op::ViewDrop { slot: 0 });
        program.push(Op::ViewDrop { slot: 1 });
        program.push(Op::Check);
    }
    base_case("C11", seed, &g, program, class)
}

/// C12: keyspaces are isolated; a deleted keyspace never comes back
pub fn gen_c12(tier: Tier, seed: u64) -> Case {
    let mut r = Rng::stream(seed, "workload");
    let n_names = r.range(2, 4) as usize;
    let n_keys = r.range(2, 4) as usize;
    let mut g = G::new(&mut r, n_names, n_keys, DbKind::Plain, false);
    g.cfg.check_every = *g.r.pick(&[1u32, 2, 0]);
    let mix = Mix {
        insert: 8,
        remove: 2,
        batch: 2,
        clear: 1,
        read: 2,
        scan: 1,
        maint: *g.r.pick(&[0u32, 2, 6]),
        reopen: 3,
        ks_life: 7,
        check: 1,
        ..Mix::zero()
    };
    let n_ops = match tier {
        Tier::Quick => g.r.range(8, 35),
        Tier::Thorough => g.r.range(8, 70),
    } as usize;
    let init = g.r.range(1, n_names as u64) as usize;
    let mut program = g.create_initial(init);
    program.extend(g.program(n_ops, &mix));
    program.push(Op::Reopen);
    // create every name again after the final reopen: nothing may leak into them
    for i in 0..n_names {
        program.push(Op::CreateKs { ks: i as u8 });
    }
    program.push(Op::Check);
    program.push(Op::Reopen);
    let class = format!("names{n_names}");
    base_case("C12", seed, &g, program, class)
}

fn gen_extra(r: &mut Rng) -> ExtraOpts {
    fn len(r: &mut Rng) -> usize {
        *r.pick(&[1usize, 2, 3, 7, 255])
    }
    let n = len(r);
    let block_size = (0..n).map(|_| *r.pick(&[1u32, 512, 4096, 65536, 524_288])).collect();
    let n = len(r);
    let restart_interval = (0..n).map(|_| *r.pick(&[1u8, 2, 16, 255])).collect();
    let n = len(r);
    let hash_ratio = (0..n).map(|_| *r.pick(&[0.0f32, 0.5, 8.0, 1.0e9, f32::MIN_POSITIVE])).collect();
    let mut bools = |r: &mut Rng| {
        let n = len(r);
        (0..n).map(|_| r.chance(1, 2)).collect::<Vec<bool>>()
    };
    let index_pinning = bools(r);
    let filter_pinning = bools(r);
    let index_partitioning = bools(r);
    let filter_partitioning = bools(r);
    let n = len(r);
    let filter_policy = (0..n)
        .map(|_| match r.below(3) {
            0 => (0u8, 0.0f32),
            1 => (1, *r.pick(&[0.0001f32, 0.01, 0.5])),
            _ => (2, *r.pick(&[1.0f32, 10.0, 50.0])),
        })
        .collect();
    let data_compression = bools(r);
    let index_compression = bools(r);
    ExtraOpts {
        block_size,
        restart_interval,
        hash_ratio,
        index_pinning,
        filter_pinning,
        index_partitioning,
        filter_partitioning,
        filter_policy,
        data_compression,
        index_compression,
        expect_point_read_hits: r.chance(1, 2),
    }
}

pub fn gen_c16_opts(r: &mut Rng) -> KsOpts {
    let mut o = crate::gen::gen_ks_opts(r);
    o.max_memtable = *r.pick(&[0u64, 1, 64, 1024, 1 << 20, u64::MAX, 1 << 40]);
    o.manual_persist = r.chance(1, 3);
    if r.chance(1, 4) {
        o.strategy = Strategy::Fifo { limit: *r.pick(&[1u64, 1 << 30, u64::MAX]) };
    } else if r.chance(1, 2) {
        let n = *r.pick(&[1usize, 2, 6]);
        o.strategy = Strategy::Leveled {
            l0: *r.pick(&[1u8, 2, 4, 8, 255]),
            target: *r.pick(&[1u64, 1 << 10, 64 << 20, u64::MAX / 512]),
            ratios: (0..n).map(|_| *r.pick(&[2.0f32, 10.0, 1.5, 1000.0])).collect(),
        };
    }
    if r.chance(2, 3) {
        o.extra = Some(gen_extra(r));
    }
    o
}

/// C16: options chosen at creation stay in force
pub fn gen_c16(tier: Tier, seed: u64) -> Case {
    let mut r = Rng::stream(seed, "workload");
    let n_names = r.range(1, 3) as usize;
    let kind = pick_kind(&mut r);
    let mut g = G::new(&mut r, n_names, 3, kind, false);
    g.cfg.check_every = 0;
    // now and then compaction filter factories are assigned to some of the names: attaching a
    // factory must not disturb any other option (at creation or on recovery)
    if g.r.chance(1, 4) {
        let names = g.cfg.names.clone();
        g.cfg.filtered = names.into_iter().filter(|_| g.r.chance(1, 2)).collect();
    }
    for i in 0..n_names {
        g.cfg.opts[i] = gen_c16_opts(g.r);
    }
    let mut program = vec![];
    let mut created = vec![false; n_names];
    let steps = g.r.range(4, if tier == Tier::Quick { 12 } else { 24 });
    for _ in 0..steps {
        let i = g.r.usize(n_names);
        match g.r.below(6) {
            0 | 1 => {
                created[i] = true;
                g.exists[i] = true;
                program.push(Op::CreateKs { ks: i as u8 });
            }
            2 => {
                if created[i] {
                    program.push(Op::OpenKsWith { ks: i as u8, opts: gen_c16_opts(g.r) });
                }
            }
            3 => program.push(Op::Reopen),
            4 => {
                // only keyspaces whose strategy tolerates arbitrary writes get data
                if created[i] && matches!(g.cfg.opts[i].strategy, Strategy::Leveled { l0, target, .. } if l0 >= 2 && target >= 1024)
                    && g.cfg.opts[i].extra.is_none()
                {
                    program.push(Op::Insert { ks: i as u8, key: g.key(), val: g.val() });
                }
            }
            _ => {
                if created[i] && g.r.chance(1, 3) {
                    created[i] = false;
                    g.exists[i] = false;
                    program.push(Op::DeleteKs { ks: i as u8 });
                    program.push(Op::DropHandle { ks: i as u8 });
                }
            }
        }
    }
    program.push(Op::Reopen);
    let class = format!("{:?}", kind);
    let mut c = base_case("C16", seed, &g, program, class);
    c.cfg.rotation_threshold = 0;
    c
}

/// C18: compaction filters act only where assigned
pub fn gen_c18(tier: Tier, seed: u64) -> Case {
    let mut r = Rng::stream(seed, "workload");
    let n_names = r.range(2, 4) as usize;
    let mut g = G::new(&mut r, n_names, 6, DbKind::Plain, false);
    // keys covering all three verdicts: first byte % 3 -> a=1 remove, b=2 replace, c=0 keep
    g.cfg.keys = vec![b"a".to_vec(), b"ab".to_vec(), b"b".to_vec(), b"b\0".to_vec(), b"c".to_vec(), b"ca".to_vec()];
    g.cfg.check_every = *g.r.pick(&[1u32, 2, 3]);
    for o in &mut g.cfg.opts {
        o.blob = None; // filter + blob replace path is exercised separately below
    }
    if g.r.chance(1, 4) {
        g.cfg.opts[0].blob = Some(BlobOpts { threshold: 16, file_target: 64 << 20, staleness: 0.25, age_cutoff: 0.25, lz4: false });
    }
    // look-alike names: "a" filtered must not imply "ab"-like names; names table is fixed a,b,c,d
    let mut filtered = vec![];
    for n in g.cfg.names.clone() {
        if g.r.chance(1, 2) {
            filtered.push(n);
        }
    }
    if filtered.is_empty() {
        filtered.push(g.cfg.names[0].clone());
    }
    g.cfg.filtered = filtered;
    let mix = Mix {
        insert: 10,
        remove: 2,
        batch: 2,
        read: 3,
        scan: 2,
        maint: *g.r.pick(&[6u32, 12, 24]),
        reopen: 2,
        check: 2,
        ..Mix::zero()
    };
    let n_ops = match tier {
        Tier::Quick => g.r.range(10, 40),
        Tier::Thorough => g.r.range(10, 80),
    } as usize;
    let mut program = g.create_initial(n_names);
    program.extend(g.program(n_ops, &mix));
    for i in 0..n_names {
        program.push(Op::Rotate { ks: i as u8 });
    }
    program.push(Op::Drain);
    for i in 0..n_names {
        program.push(Op::MajorCompact { ks: i as u8 });
    }
    program.push(Op::CheckFiltered);
    program.push(Op::Check);
    program.push(Op::Reopen);
    // (after the reopen the active journal is replayed into the memtables: flush again)
    for i in 0..n_names {
        program.push(Op::Rotate { ks: i as u8 });
    }
    program.push(Op::Drain);
    for i in 0..n_names {
        program.push(Op::MajorCompact { ks: i as u8 });
    }
    program.push(Op::CheckFiltered);
    program.push(Op::Check);
    let class = format!("filtered{}of{}", g.cfg.filtered.len(), n_names);
    base_case("C18", seed, &g, program, class)
}

/// C05 (SEQ part): snapshots, read transactions and iterators are frozen in time
pub fn gen_c05(tier: Tier, seed: u64) -> Case {
    let mut r = Rng::stream(seed, "workload");
    let n_names = r.range(1, 2) as usize;
    let n_keys = r.range(3, 6) as usize;
    let kind = pick_kind(&mut r);
    let mut g = G::new(&mut r, n_names, n_keys, kind, false);
    g.cfg.check_every = 0;
    let mix = Mix {
        insert: 8,
        remove: 3,
        batch: 2,
        clear: *g.r.pick(&[0u32, 1]),
        ingest: *g.r.pick(&[0u32, 1]),
        view: 10,
        iter: 8,
        tx: 2,
        txks: if kind == DbKind::Plain { 0 } else { 2 },
        maint: *g.r.pick(&[2u32, 6, 12]),
        burst: *g.r.pick(&[0u32, 1]),
        ..Mix::zero()
    };
    let n_ops = match tier {
        Tier::Quick => g.r.range(12, 45),
        Tier::Thorough => g.r.range(12, 90),
    } as usize;
    let mut program = g.create_initial(n_names);
    program.extend(g.program(n_ops, &mix));
    // read every view that is still open once more at the end
    for s in g.open_views.clone() {
        if let Some(ks) = g.live_ks() {
            program.push(Op::ViewRead { slot: s, op: ReadOp::Scan { ks, range: RangeSpec::All, mode: ScanMode::Fwd } });
        }
    }
    for s in g.open_iters.clone() {
        program.push(Op::IterStep { slot: s, n: 20, back: false });
    }
    let class = format!("{:?}", kind);
    base_case("C05", seed, &g, program, class)
}

/// Interleaved transactions (C07 / C08)
fn gen_tx_interleaved(g: &mut G, n_steps: usize, max_open: usize, helper_w: u32, outside_reads: bool, read_w: u32) -> Vec<Op> {
    let mut ops = vec![];
    let mut open: Vec<u8> = vec![];
    let mut next_slot = 0u8;
    let single = g.cfg.db_kind == DbKind::SingleWriter;
    for _ in 0..n_steps {
        let can_begin = open.len() < if single { 1 } else { max_open };
        let w = [
            if can_begin { 4 } else { 0 },
            if open.is_empty() { 0 } else { 12 },
            if open.is_empty() { 0 } else { 4 },
            if single && !open.is_empty() { 0 } else { helper_w },
            if outside_reads { 3 } else { 0 },
            1,
        ];
        match g.r.weighted(&w) {
            0 => {
                let slot = next_slot;
                next_slot += 1;
                open.push(slot);
                ops.push(Op::TxBegin { slot, dur: None });
                // sometimes two transactions begin at the very same instant
                if open.len() < max_open && !single && g.r.chance(1, 3) {
                    let slot = next_slot;
                    next_slot += 1;
                    open.push(slot);
                    ops.push(Op::TxBegin { slot, dur: None });
                }
            }
            1 => {
                let slot = *g.r.pick(&open);
                let ks = g.live_ks().unwrap_or(0);
                ops.push(Op::TxOp { slot, op: g.tx_op(ks, read_w) });
            }
            2 => {
                let i = g.r.usize(open.len());
                let slot = open.remove(i);
                let end = match g.r.below(8) {
                    0 => TxEnd::Rollback,
                    1 => TxEnd::Drop,
                    _ => TxEnd::Commit,
                };
                ops.push(Op::TxEnd { slot, end });
            }
            3 => {
                let ks = g.live_ks().unwrap_or(0);
                let key = g.key();
                ops.push(match g.r.below(5) {
                    0 => Op::TxKsInsert { ks, key, val: g.val() },
                    1 => Op::TxKsRemove { ks, key },
                    2 => Op::TxKsTake { ks, key },
                    3 => Op::TxKsFetchUpdate { ks, key, f: g.updfn() },
                    _ => Op::TxKsUpdateFetch { ks, key, f: g.updfn() },
                });
            }
            4 => {
                let ks = g.live_ks().unwrap_or(0);
                ops.push(Op::Read(g.read_op(ks, 1)));
            }
            _ => ops.push(g.maintenance()),
        }
    }
    for slot in open {
        ops.push(Op::TxEnd { slot, end: TxEnd::Commit });
    }
    ops
}

/// C07: optimistic transactions are serialisable (SEQ: interleaved handles)
pub fn gen_c07(tier: Tier, seed: u64) -> Case {
    let mut r = Rng::stream(seed, "workload");
    let n_names = r.range(1, 2) as usize;
    let n_keys = r.range(2, 4) as usize;
    let mut g = G::new(&mut r, n_names, n_keys, DbKind::Optimistic, false);
    g.cfg.check_every = 0;
    g.sizes = vec![1, 8, 24];
    let mut program = g.create_initial(n_names);
    // seed some data through helper ops
    for _ in 0..g.r.range(0, 4) {
        let ks = g.live_ks().unwrap();
        program.push(Op::TxKsInsert { ks, key: g.key(), val: g.val() });
    }
    let n = match tier {
        Tier::Quick => g.r.range(8, 28),
        Tier::Thorough => g.r.range(8, 40),
    } as usize;
    let max_open = g.r.range(2, 4) as usize;
    program.extend(gen_tx_interleaved(&mut g, n, max_open, 2, false, 3));
    program.push(Op::Check);
    let class = format!("open{max_open}");
    base_case("C07", seed, &g, program, class)
}

/// C08: transaction-local semantics (SEQ part)
pub fn gen_c08(tier: Tier, seed: u64) -> Case {
    let mut r = Rng::stream(seed, "workload");
    let n_names = r.range(1, 3) as usize;
    let n_keys = r.range(2, 5) as usize;
    let kind = if r.chance(1, 2) { DbKind::SingleWriter } else { DbKind::Optimistic };
    let mut g = G::new(&mut r, n_names, n_keys, kind, false);
    g.cfg.check_every = 0;
    let mut program = g.create_initial(n_names);
    let pre = Mix { insert: 5, remove: 1, maint: 1, ..Mix::zero() };
    let npre = g.r.range(0, 6) as usize;
    program.extend(g.program(npre, &pre));
    let n = match tier {
        Tier::Quick => g.r.range(8, 30),
        Tier::Thorough => g.r.range(8, 60),
    } as usize;
    program.extend(gen_tx_interleaved(&mut g, n, 2, 1, true, 4));
    program.push(Op::Check);
    let class = format!("{:?}", kind);
    base_case("C08", seed, &g, program, class)
}
