//! THR-engine scenario families: C14, C06 and the concurrent parts of C05, C07, C08.

use super::*;
use crate::gen::{Tier, G};
use crate::rng::Rng;

fn thr_case(prop: &str, seed: u64, g: &G, program: Vec<Op>, threads: Vec<Vec<Op>>, class: String) -> Case {
    Case {
        prop: prop.into(),
        seed,
        engine: Engine::Thr,
        cfg: g.cfg.clone(),
        program,
        threads,
        schedule: None,
        fault: Fault::None,
        class,
    }
}

fn tiny_opts(g: &mut G) {
    for o in &mut g.cfg.opts {
        o.max_memtable = *g.r.pick(&[128u64, 256, 1024]);
        o.blob = None;
        o.strategy = Strategy::Leveled { l0: g.r.range(2, 4) as u8, target: *g.r.pick(&[1u64 << 10, 1 << 12, 64 << 20]), ratios: vec![10.0] };
    }
    g.cfg.rotation_threshold = *g.r.pick(&[0u64, 1024, 4096]);
    g.cfg.workers = g.r.range(1, 2) as usize;
    g.cfg.check_every = 0;
    g.sizes = vec![8, 24, 100, 100, 300];
}

fn setup(g: &mut G, n_names: usize, seed_writes: usize) -> Vec<Op> {
    let mut p = g.create_initial(n_names);
    for _ in 0..seed_writes {
        let ks = g.live_ks().unwrap();
        p.push(Op::Insert { ks, key: g.key(), val: g.val() });
    }
    p.push(Op::RunThreads);
    p
}

/// One run in three works on a database that went through recovery: the setup is written by a
/// first instance (no threads), closed, and the threads run against the reopened directory
/// (recovered keyspaces and counters are wired up by different code than fresh ones).
fn maybe_reopened(g: &mut G, program: &mut Vec<Op>) -> &'static str {
    if g.r.chance(1, 3) {
        let at = program.iter().position(|o| matches!(o, Op::RunThreads)).unwrap_or(program.len());
        program.insert(at, Op::Reopen);
        "+reopened"
    } else {
        ""
    }
}

/// C14: concurrent single operations are linearizable and no write is lost
pub fn gen_c14(tier: Tier, seed: u64) -> Case {
    let mut r = Rng::stream(seed, "workload");
    let n_names = r.range(1, 2) as usize;
    let n_keys = r.range(2, 3) as usize;
    let mut g = G::new(&mut r, n_names, n_keys, DbKind::Plain, false);
    tiny_opts(&mut g);
    let cls = g.r.below(3);
    let n_threads = g.r.range(2, 4) as usize;
    let seedw = g.r.range(0, 3) as usize;
    let program = setup(&mut g, n_names, seedw);
    let mut threads = vec![];
    let budget = if tier == Tier::Quick { 28 } else { 40 };
    let per = (budget / n_threads).clamp(3, 10);
    for t in 0..n_threads {
        let n = g.r.range(3, per as u64) as usize;
        let mut ops = vec![];
        for _ in 0..n {
            let ks = g.live_ks().unwrap();
            let key = g.key();
            let w: [u32; 8] = match cls {
                0 => [6, 2, 5, 1, 1, 0, 0, 0],
                1 => [5, 2, 3, 1, 1, 3, 2, 0],
                _ => [5, 2, 4, 0, 0, 2, 1, if t == 0 { 2 } else { 0 }],
            };
            ops.push(match g.r.weighted(&w) {
                0 => Op::Insert { ks, key, val: g.val() },
                1 => Op::Remove { ks, key },
                2 => Op::Read(ReadOp::Get { ks, key }),
                3 => Op::Read(ReadOp::Contains { ks, key }),
                4 => Op::Read(ReadOp::SizeOf { ks, key }),
                5 => Op::Read(ReadOp::Scan { ks, range: if g.r.chance(1, 2) { RangeSpec::All } else { g.range() }, mode: ScanMode::Fwd }),
                6 => g.batch(3, false),
                _ => g.ingest(ks),
            });
        }
        threads.push(ops);
    }
    let mut class = ["point-ops", "points+scans+batches", "with-ingestion"][cls as usize].to_string();
    // an unrelated keyspace is created and deleted by one more thread while the others work
    // (keyspace deletion publishes a sequence number of its own)
    if g.r.chance(1, 4) {
        let z = g.cfg.names.len() as u8;
        g.cfg.names.push("z".into());
        g.cfg.opts.push(KsOpts::default());
        let mut ops = vec![];
        for _ in 0..g.r.range(1, 3) {
            ops.push(Op::CreateKs { ks: z });
            if g.r.chance(1, 2) {
                ops.push(Op::Insert { ks: z, key: 0, val: g.val() });
            }
            ops.push(Op::DeleteKs { ks: z });
        }
        threads.push(ops);
        class.push_str("+keyspace-churn");
    }
    let mut program = program;
    class.push_str(maybe_reopened(&mut g, &mut program));
    thr_case("C14", seed, &g, program, threads, class)
}

/// C06: a committed batch becomes visible to readers atomically
pub fn gen_c06(tier: Tier, seed: u64) -> Case {
    let mut r = Rng::stream(seed, "workload");
    let n_names = r.range(2, 3) as usize;
    let n_keys = r.range(2, 3) as usize;
    let kind = match r.below(4) {
        0 | 1 => DbKind::Plain,
        2 => DbKind::SingleWriter,
        _ => DbKind::Optimistic,
    };
    let mut g = G::new(&mut r, n_names, n_keys, kind, false);
    tiny_opts(&mut g);
    let program = setup(&mut g, n_names, 0);
    let mut threads = vec![];
    let n_writers = g.r.range(1, 2);
    let n_readers = g.r.range(1, 2);
    let scale = if tier == Tier::Quick { 1 } else { 2 };
    for _ in 0..n_writers {
        let mut ops = vec![];
        for _ in 0..g.r.range(2, 3 * scale) {
            if kind != DbKind::Plain && g.r.chance(1, 2) {
                ops.push(Op::TxBegin { slot: 0, dur: None });
                for _ in 0..g.r.range(2, 4) {
                    let ks = g.live_ks().unwrap();
                    ops.push(Op::TxOp { slot: 0, op: TxOp::Insert { ks, key: g.key(), val: g.val() } });
                }
                ops.push(Op::TxEnd { slot: 0, end: TxEnd::Commit });
            } else {
                ops.push(g.batch(4, false));
            }
            // now and then a keyspace is cleared right before the next commit (a clear is a
            // commit of its own and publishes a sequence number of its own)
            if kind == DbKind::Plain && g.r.chance(1, 5) {
                let ks = g.live_ks().unwrap();
                ops.push(Op::Clear { ks });
            }
        }
        threads.push(ops);
    }
    for _ in 0..n_readers {
        let mut ops = vec![];
        for _ in 0..g.r.range(2, 3 * scale) {
            if g.r.chance(3, 4) {
                ops.push(Op::ViewOpen { slot: 0, kind: if g.r.chance(1, 2) { ViewKind::Snapshot } else { ViewKind::ReadTx } });
                for ks in 0..n_names as u8 {
                    if g.r.chance(1, 3) {
                        ops.push(Op::ViewRead { slot: 0, op: ReadOp::Scan { ks, range: RangeSpec::All, mode: ScanMode::Fwd } });
                    } else {
                        for key in 0..n_keys as u8 {
                            ops.push(Op::ViewRead { slot: 0, op: ReadOp::Get { ks, key } });
                        }
                    }
                }
                ops.push(Op::ViewDrop { slot: 0 });
            } else {
                let ks = g.live_ks().unwrap();
                ops.push(Op::Read(ReadOp::Scan { ks, range: RangeSpec::All, mode: ScanMode::Fwd }));
            }
        }
        threads.push(ops);
    }
    // a thread that keeps background workers busy: writes + rotations on the last keyspace
    if g.r.chance(3, 4) {
        let ks = (n_names - 1) as u8;
        let mut ops = vec![];
        for _ in 0..g.r.range(2, 4) {
            ops.push(Op::Insert { ks, key: g.key(), val: g.val() });
            ops.push(Op::Rotate { ks });
        }
        threads.push(ops);
    }
    let mut program = program;
    let class = format!("{:?}-w{}r{}{}", kind, n_writers, n_readers, maybe_reopened(&mut g, &mut program));
    thr_case("C06", seed, &g, program, threads, class)
}

/// C05 (THR part): views held by readers while writers and workers run
pub fn gen_c05t(tier: Tier, seed: u64) -> Case {
    let mut r = Rng::stream(seed, "workload");
    let n_names = r.range(1, 2) as usize;
    let n_keys = r.range(2, 3) as usize;
    let kind = match r.below(3) {
        0 => DbKind::Plain,
        1 => DbKind::SingleWriter,
        _ => DbKind::Optimistic,
    };
    let mut g = G::new(&mut r, n_names, n_keys, kind, false);
    tiny_opts(&mut g);
    let seedw = g.r.range(1, 4) as usize;
    let program = setup(&mut g, n_names, seedw);
    let mut threads = vec![];
    let scale = if tier == Tier::Quick { 1 } else { 2 };
    // readers
    for _ in 0..g.r.range(1, 2) {
        let mut ops = vec![];
        for _ in 0..g.r.range(1, 2 * scale) {
            let slot = 0u8;
            ops.push(Op::ViewOpen { slot, kind: if g.r.chance(1, 2) { ViewKind::Snapshot } else { ViewKind::ReadTx } });
            for _ in 0..g.r.range(2, 6) {
                let ks = g.live_ks().unwrap();
                ops.push(Op::ViewRead { slot, op: if g.r.chance(1, 3) { ReadOp::Scan { ks, range: RangeSpec::All, mode: ScanMode::Fwd } } else { ReadOp::Get { ks, key: g.key() } } });
            }
            ops.push(Op::ViewDrop { slot });
        }
        threads.push(ops);
    }
    // writers (with explicit maintenance)
    for _ in 0..g.r.range(1, 2) {
        let mut ops = vec![];
        for _ in 0..g.r.range(3, 6 * scale) {
            let ks = g.live_ks().unwrap();
            ops.push(match g.r.below(10) {
                0 | 1 | 2 | 3 => Op::Insert { ks, key: g.key(), val: g.val() },
                4 => Op::Remove { ks, key: g.key() },
                5 => g.batch(3, false),
                6 => Op::Rotate { ks },
                7 => Op::MajorCompact { ks },
                8 => {
                    if kind == DbKind::Plain {
                        Op::Clear { ks }
                    } else {
                        Op::TxKsInsert { ks, key: g.key(), val: g.val() }
                    }
                }
                _ => Op::Insert { ks, key: g.key(), val: g.val() },
            });
        }
        threads.push(ops);
    }
    let mut program = program;
    let class = format!("thr-{:?}{}", kind, maybe_reopened(&mut g, &mut program));
    thr_case("C05", seed, &g, program, threads, class)
}

/// C07 (THR part): optimistic transactions on several threads
pub fn gen_c07t(tier: Tier, seed: u64) -> Case {
    let mut r = Rng::stream(seed, "workload");
    let n_names = r.range(1, 2) as usize;
    let n_keys = r.range(2, 3) as usize;
    let mut g = G::new(&mut r, n_names, n_keys, DbKind::Optimistic, false);
    tiny_opts(&mut g);
    g.sizes = vec![8, 24];
    let mut program = g.create_initial(n_names);
    for _ in 0..g.r.range(0, 3) {
        let ks = g.live_ks().unwrap();
        program.push(Op::TxKsInsert { ks, key: g.key(), val: g.val() });
    }
    program.push(Op::RunThreads);
    let mut threads = vec![];
    let scale = if tier == Tier::Quick { 2 } else { 3 };
    for _ in 0..g.r.range(2, 3) {
        let mut ops = vec![];
        for _ in 0..g.r.range(1, scale) {
            if g.r.chance(1, 5) {
                let ks = g.live_ks().unwrap();
                let key = g.key();
                ops.push(match g.r.below(3) {
                    0 => Op::TxKsInsert { ks, key, val: g.val() },
                    1 => Op::TxKsFetchUpdate { ks, key, f: g.updfn() },
                    _ => Op::TxKsTake { ks, key },
                });
                continue;
            }
            ops.push(Op::TxBegin { slot: 0, dur: None });
            for _ in 0..g.r.range(1, 4) {
                let ks = g.live_ks().unwrap();
                ops.push(Op::TxOp { slot: 0, op: g.tx_op(ks, 3) });
            }
            ops.push(Op::TxEnd { slot: 0, end: if g.r.chance(1, 8) { TxEnd::Rollback } else { TxEnd::Commit } });
        }
        threads.push(ops);
    }
    let mut program = program;
    let class = format!("thr{}", maybe_reopened(&mut g, &mut program));
    thr_case("C07", seed, &g, program, threads, class)
}

/// C08 (THR part): competing single-writer read-modify-write loops
pub fn gen_c08t(tier: Tier, seed: u64) -> Case {
    let mut r = Rng::stream(seed, "workload");
    let mut g = G::new(&mut r, 1, 2, DbKind::SingleWriter, false);
    tiny_opts(&mut g);
    g.sizes = vec![8];
    let program = setup(&mut g, 1, 1);
    let mut threads = vec![];
    let scale = if tier == Tier::Quick { 3 } else { 5 };
    for _ in 0..g.r.range(2, 3) {
        let mut ops = vec![];
        for _ in 0..g.r.range(1, scale) {
            // the keyspace wrapper's single-operation helpers are write transactions of their own:
            // they wait for the single-writer lock like everybody else
            if g.r.chance(1, 4) {
                let key = g.key();
                ops.push(match g.r.below(3) {
                    0 => Op::TxKsRemove { ks: 0, key },
                    _ => Op::TxKsInsert { ks: 0, key, val: g.val() },
                });
                continue;
            }
            ops.push(Op::TxBegin { slot: 0, dur: None });
            let key = g.key();
            let id = g.next_val;
            g.next_val += 1;
            if g.r.chance(1, 2) {
                ops.push(Op::TxOp { slot: 0, op: TxOp::FetchUpdate { ks: 0, key, f: UpdFn::Derive { id } } });
            } else {
                ops.push(Op::TxOp { slot: 0, op: TxOp::Read(ReadOp::Get { ks: 0, key }) });
                ops.push(Op::TxOp { slot: 0, op: TxOp::InsertDerived { ks: 0, key, id } });
            }
            ops.push(Op::TxEnd { slot: 0, end: if g.r.chance(1, 10) { TxEnd::Rollback } else { TxEnd::Commit } });
        }
        threads.push(ops);
    }
    let mut program = program;
    let class = format!("thr-rmw{}", maybe_reopened(&mut g, &mut program));
    thr_case("C08", seed, &g, program, threads, class)
}

/// C13 (THR part): several writer threads and fjall's own workers with an injected journal I/O error
pub fn gen_c13t(tier: Tier, seed: u64) -> Case {
    let mut r = Rng::stream(seed, "workload");
    let n_names = r.range(1, 2) as usize;
    let n_keys = r.range(2, 3) as usize;
    let mut g = G::new(&mut r, n_names, n_keys, DbKind::Plain, false);
    tiny_opts(&mut g);
    g.cfg.rotation_threshold = *g.r.pick(&[512u64, 1024]);
    g.cfg.journal_lz4 = false;
    g.sizes = vec![100, 300, 600, 1000];
    let program = setup(&mut g, n_names, 1);
    let mut threads = vec![];
    let scale = if tier == Tier::Quick { 1 } else { 2 };
    for _ in 0..g.r.range(2, 3) {
        let mut ops = vec![];
        for _ in 0..g.r.range(3, 6 * scale) {
            let ks = g.live_ks().unwrap();
            ops.push(match g.r.below(10) {
                0 | 1 | 2 | 3 | 4 => Op::Insert { ks, key: g.key(), val: g.val() },
                5 => Op::Remove { ks, key: g.key() },
                6 | 7 => g.batch(3, false),
                8 => Op::Rotate { ks },
                _ => Op::Persist { mode: Dur::Buffer },
            });
        }
        threads.push(ops);
    }
    let kind = match g.r.below(3) {
        0 => IoKind::Eio,
        1 => IoKind::Enospc,
        _ => IoKind::Short(g.r.below(900) as u32),
    };
    let target = match g.r.below(6) {
        0 | 1 => IoTarget::JournalWrite,
        2 => IoTarget::JournalSync,
        3 | 4 => IoTarget::JournalCreate,
        _ => IoTarget::JournalTruncate,
    };
    let n = g.r.range(1, 6) as u32;
    let class = format!("thr-{:?}", target);
    let mut c = thr_case("C13", seed, &g, program, threads, class);
    c.fault = Fault::Io { kind, target, n: Some(n), persistent: g.r.chance(1, 2) };
    c
}

/// C09 / C17 (THR part): is everything acknowledged power-loss durable at the instant the last
/// handle's drop returns, whatever fjall's worker threads are doing at that moment?
pub fn gen_c09t(tier: Tier, seed: u64) -> Case {
    let mut r = Rng::stream(seed, "workload");
    let n_names = r.range(1, 2) as usize;
    let n_keys = r.range(2, 3) as usize;
    let mut g = G::new(&mut r, n_names, n_keys, DbKind::Plain, false);
    tiny_opts(&mut g);
    g.sizes = vec![8, 100, 300];
    let program = setup(&mut g, n_names, 1);
    let mut threads = vec![];
    let scale = if tier == Tier::Quick { 1 } else { 2 };
    for _ in 0..g.r.range(1, 2) {
        let mut ops = vec![];
        for _ in 0..g.r.range(2, 5 * scale) {
            let ks = g.live_ks().unwrap();
            ops.push(match g.r.below(8) {
                0 | 1 | 2 | 3 => Op::Insert { ks, key: g.key(), val: g.val() },
                4 => Op::Remove { ks, key: g.key() },
                5 => g.batch(3, false),
                _ => Op::Rotate { ks },
            });
        }
        threads.push(ops);
    }
    let mut c = thr_case("C09", seed, &g, program, threads, "thr-drop-durability".into());
    c.fault = Fault::Power { points: Some(vec![]), variant: 0, vseed: seed };
    c
}

/// C17 (THR part): dropping the last handle while fjall's workers are slow to react
pub fn gen_c17t(_tier: Tier, seed: u64) -> Case {
    let mut r = Rng::stream(seed, "workload");
    let mut g = G::new(&mut r, 1, 2, DbKind::Plain, false);
    tiny_opts(&mut g);
    g.cfg.workers = g.r.range(1, 3) as usize;
    g.sizes = vec![8, 100];
    let program = setup(&mut g, 1, 1);
    let mut ops = vec![];
    for _ in 0..g.r.range(1, 4) {
        ops.push(Op::Insert { ks: 0, key: g.key(), val: g.val() });
        if g.r.chance(1, 3) {
            ops.push(Op::Rotate { ks: 0 });
        }
    }
    g.cfg.starve_on_drop = *g.r.pick(&[0u32, 50, 1100, 1100, 1500]);
    let class = format!("thr-drop-w{}-starve{}", g.cfg.workers, g.cfg.starve_on_drop);
    thr_case("C17", seed, &g, program, vec![ops], class)
}

/// C12 (THR): several threads open-or-create the same names at the same time, write through
/// their own handles and read through them; afterwards some names are deleted, everything is
/// closed and reopened. All handles of a name must be one keyspace (linearizable history over
/// all handles), a deleted name stays deleted, the others keep exactly their content.
/// C16 (THR): the same race, but every caller passes its own options: whoever creates the
/// keyspace decides, every handle reports those options, and they are the stored ones after reopen.
pub fn gen_c16t(tier: Tier, seed: u64) -> Case {
    let mut c = gen_c12t(tier, seed);
    let mut r = Rng::stream(seed, "options");
    for t in &mut c.threads {
        for op in t.iter_mut() {
            if let Op::CreateKs { ks } = op {
                if r.chance(2, 3) {
                    let mut o = crate::gen::gen_ks_opts(&mut r);
                    o.max_memtable = *r.pick(&[128u64, 256, 1024, 4096]);
                    *op = Op::OpenKsWith { ks: *ks, opts: o };
                }
            }
        }
    }
    c.prop = "C16".into();
    c.class = format!("{}+own-options", c.class);
    c
}

pub fn gen_c12t(tier: Tier, seed: u64) -> Case {
    let mut r = Rng::stream(seed, "workload");
    let n_names = r.range(2, 3) as usize;
    let n_keys = r.range(2, 3) as usize;
    let mut g = G::new(&mut r, n_names, n_keys, DbKind::Plain, false);
    tiny_opts(&mut g);
    // names created before the threads start (the others are created by the threads)
    let pre = g.r.range(0, (n_names - 1) as u64) as usize;
    let seedw = if pre > 0 { g.r.range(0, 2) as usize } else { 0 };
    let mut program = g.create_initial(pre);
    for _ in 0..seedw {
        let ks = g.live_ks().unwrap();
        program.push(Op::Insert { ks, key: g.key(), val: g.val() });
    }
    program.push(Op::RunThreads);
    let n_threads = g.r.range(2, 3) as usize;
    let budget = if tier == Tier::Quick { 8 } else { 12 };
    let mut threads = vec![];
    for _ in 0..n_threads {
        let mut ops = vec![];
        let mut have: Vec<u8> = (0..pre as u8).collect();
        // open the racy names first (that is where the threads meet), in a drawn order
        let mut racy: Vec<u8> = (pre as u8..n_names as u8).collect();
        if g.r.chance(1, 2) {
            racy.reverse();
        }
        for ks in racy {
            ops.push(Op::CreateKs { ks });
            have.push(ks);
            if g.r.chance(1, 2) {
                ops.push(Op::Insert { ks, key: g.key(), val: g.val() });
            }
        }
        for _ in 0..g.r.range(2, budget) {
            let ks = *g.r.pick(&have);
            let key = g.key();
            // point reads only: how scans relate to concurrent writes is C14's business (and has
            // a recorded finding there); this class is about which keyspace a handle denotes
            ops.push(match g.r.weighted(&[5, 1, 4, 1, 1]) {
                0 => Op::Insert { ks, key, val: g.val() },
                1 => Op::Remove { ks, key },
                2 => Op::Read(ReadOp::Get { ks, key }),
                3 => Op::Read(ReadOp::Contains { ks, key }),
                _ => Op::CreateKs { ks },
            });
        }
        threads.push(ops);
    }
    // tail: the main thread opens every name itself, maybe deletes one of the raced names
    for ks in 0..n_names as u8 {
        program.push(Op::CreateKs { ks });
    }
    let mut class = "create-race".to_string();
    if g.r.chance(1, 2) {
        let ks = g.r.range(pre as u64, (n_names - 1) as u64) as u8;
        program.push(Op::DeleteKs { ks });
        class.push_str("+delete");
    }
    thr_case("C12", seed, &g, program, threads, class)
}

/// C04 (THR): bulk ingestion and journaled writes from several threads, fjall's workers flushing
/// and compacting meanwhile; then every handle is dropped and the directory reopened: the content
/// all read paths agreed on before the close is the content afterwards (no linearizability
/// verdict here - that is C14's - only close/reopen equality).
pub fn gen_c04t(tier: Tier, seed: u64) -> Case {
    let mut c = gen_c14(tier, seed ^ 0x00c0_4c04);
    let mut r = Rng::stream(seed, "c04t");
    // every run ingests; ingested tombstones are left to the SEQ part (recorded finding there)
    let n_ks = c.cfg.names.iter().filter(|n| n.as_str() != "z").count() as u64;
    let mut next_id = 1000u32;
    for t in &mut c.threads {
        for op in t.iter_mut() {
            if let Op::Ingest { items, .. } = op {
                for (_, v) in items.iter_mut() {
                    if v.is_none() {
                        next_id += 1;
                        *v = Some(Val { id: next_id, size: 8, compressible: true });
                    }
                }
            }
        }
    }
    let n_keys = c.cfg.keys.len() as u64;
    let mut items: Vec<(u8, Option<Val>)> = vec![];
    for key in 0..n_keys as u8 {
        if r.chance(2, 3) {
            next_id += 1;
            items.push((key, Some(Val { id: next_id, size: *r.pick(&[8u32, 100]), compressible: true })));
        }
    }
    if items.is_empty() {
        items.push((0, Some(Val { id: next_id + 1, size: 8, compressible: true })));
    }
    let ks = r.below(n_ks.max(1)) as u8;
    let at = r.usize(c.threads.len());
    let pos = r.usize(c.threads[at].len() + 1);
    c.threads[at].insert(pos, Op::Ingest { ks, items });
    c.prop = "C04".into();
    c.class = format!("thr-ingest-{}", c.class);
    c.seed = seed;
    c
}

/// C10 / C14 (THR): journal rotation (threshold scaled to 512-1024 B) driven by fjall's own
/// workers while one thread fills a busy keyspace and rotates its memtable, and other threads
/// drop single writes into otherwise idle keyspaces - the writes a sealed journal's eviction
/// watermarks must still cover. Afterwards the main thread flushes the busy keyspace again (so
/// that sealed journals get reclaimed), everything is closed and reopened: nothing acknowledged
/// may be missing.
pub fn gen_c10t(tier: Tier, seed: u64, prop: &str) -> Case {
    let mut r = Rng::stream(seed, "workload");
    let n_names = r.range(2, 3) as usize;
    let n_keys = r.range(2, 3) as usize;
    let mut g = G::new(&mut r, n_names, n_keys, DbKind::Plain, false);
    tiny_opts(&mut g);
    for o in &mut g.cfg.opts {
        o.max_memtable = 1 << 20;
    }
    g.cfg.rotation_threshold = *g.r.pick(&[512u64, 1024]);
    g.cfg.journal_lz4 = false;
    g.cfg.workers = g.r.range(1, 2) as usize;
    let program0 = setup(&mut g, n_names, 0);
    let mut threads = vec![];
    let rounds = g.r.range(2, if tier == Tier::Quick { 3 } else { 5 });
    // busy thread: fills keyspace 0 past the rotation threshold, then rotates its memtable
    let mut busy = vec![];
    for _ in 0..rounds {
        for _ in 0..g.r.range(1, 2) {
            let sz = *g.r.pick(&[600u32, 1000]);
            let v = g.val_sized(sz, false);
            busy.push(Op::Insert { ks: 0, key: g.key(), val: v });
        }
        busy.push(Op::Rotate { ks: 0 });
    }
    threads.push(busy);
    // idle keyspaces get a single small write now and then
    for ks in 1..n_names as u8 {
        let mut ops = vec![];
        for _ in 0..g.r.range(1, 3) {
            let v = g.val_sized(8, true);
            ops.push(Op::Insert { ks, key: g.key(), val: v });
            if g.r.chance(1, 3) {
                ops.push(Op::Read(ReadOp::Get { ks, key: g.key() }));
            }
        }
        threads.push(ops);
    }
    let mut program = program0;
    // tail: flush the busy keyspace once more so that journal maintenance runs
    for _ in 0..2 {
        let v = g.val_sized(600, false);
        program.push(Op::Insert { ks: 0, key: g.key(), val: v });
        program.push(Op::Rotate { ks: 0 });
    }
    let class = format!("thr-idle-keyspaces-w{}", g.cfg.workers);
    let mut c = thr_case(prop, seed, &g, program, threads, class);
    c.seed = seed;
    c
}
