//! Explicit, serialisable description of one simulated execution.
//! A `Case` is a pure value: running it never consults a PRNG (the generator did).

use serde::{Deserialize, Serialize};

pub type KsIdx = u8;

#[derive(Serialize, Deserialize, Clone, Copy, Debug, PartialEq, Eq)]
pub enum DbKind {
    Plain,
    SingleWriter,
    Optimistic,
}

#[derive(Serialize, Deserialize, Clone, Debug, PartialEq)]
pub enum Strategy {
    Leveled { l0: u8, target: u64, ratios: Vec<f32> },
    Fifo { limit: u64 },
}

/// Extra option values only exercised by C16 (policy vectors etc.)
#[derive(Serialize, Deserialize, Clone, Debug, PartialEq, Default)]
pub struct ExtraOpts {
    pub block_size: Vec<u32>,
    pub restart_interval: Vec<u8>,
    pub hash_ratio: Vec<f32>,
    pub index_pinning: Vec<bool>,
    pub filter_pinning: Vec<bool>,
    pub index_partitioning: Vec<bool>,
    pub filter_partitioning: Vec<bool>,
    /// per level: 0 = none, 1 = bloom fpr, 2 = bloom bits-per-key; param
    pub filter_policy: Vec<(u8, f32)>,
    /// per level: false = none, true = lz4
    pub data_compression: Vec<bool>,
    pub index_compression: Vec<bool>,
    pub expect_point_read_hits: bool,
}

#[derive(Serialize, Deserialize, Clone, Debug, PartialEq)]
pub struct BlobOpts {
    pub threshold: u32,
    pub file_target: u64,
    pub staleness: f32,
    pub age_cutoff: f32,
    pub lz4: bool,
}

#[derive(Serialize, Deserialize, Clone, Debug, PartialEq)]
pub struct KsOpts {
    /// 0 = library default
    pub max_memtable: u64,
    pub blob: Option<BlobOpts>,
    pub strategy: Strategy,
    pub manual_persist: bool,
    pub extra: Option<ExtraOpts>,
}

impl Default for KsOpts {
    fn default() -> Self {
        Self {
            max_memtable: 0,
            blob: None,
            strategy: Strategy::Leveled {
                l0: 4,
                target: 64 * 1024 * 1024,
                ratios: vec![10.0],
            },
            manual_persist: false,
            extra: None,
        }
    }
}

/// Compaction filter verdict family for C18: decided from key[0] % 3
#[derive(Serialize, Deserialize, Clone, Debug, PartialEq, Eq)]
pub enum FilterKind {
    /// 0 keep, 1 remove, 2 replace
    Mod3,
}

#[derive(Serialize, Deserialize, Clone, Debug, PartialEq)]
pub struct Cfg {
    pub db_kind: DbKind,
    pub journal_lz4: bool,
    pub manual_persist: bool,
    /// 0 = production threshold (64 MB)
    pub rotation_threshold: u64,
    /// fjall worker threads (0 in SEQ)
    pub workers: usize,
    /// keyspace name table; ops refer to keyspaces by index into this table
    pub names: Vec<String>,
    /// options used when a name is created (index-aligned with `names`)
    pub opts: Vec<KsOpts>,
    /// names that get a compaction filter assigned (C18)
    pub filtered: Vec<String>,
    /// key alphabet; ops refer to keys by index
    pub keys: Vec<Vec<u8>>,
    /// run the cross-invariant every n ops (0 = only at Check ops / end)
    pub check_every: u32,
    /// scheduler stickiness in percent (THR)
    pub stickiness: u8,
    /// scheduler seed (THR, when no explicit schedule is given)
    pub sched_seed: u64,
    /// THR: keep fjall's workers off the CPU for this many iterations of the Database drop
    /// wait loop (a loaded machine): 0 = off
    #[serde(default)]
    pub starve_on_drop: u32,
}

#[derive(Serialize, Deserialize, Clone, Debug, PartialEq, Eq, Hash)]
pub struct Val {
    pub id: u32,
    pub size: u32,
    pub compressible: bool,
}

impl Val {
    pub fn bytes(&self) -> Vec<u8> {
        if self.size == 0 {
            return vec![];
        }
        let mut v = format!("#{}:", self.id).into_bytes();
        let n = self.size as usize;
        if v.len() >= n {
            // keep id readable even for tiny sizes: size is a lower bound
            return v;
        }
        if self.compressible {
            while v.len() < n {
                v.push(b'a' + (self.id % 7) as u8);
            }
        } else {
            let mut r = crate::rng::Rng::new(u64::from(self.id) ^ 0xabcdef);
            while v.len() < n {
                v.push(r.next() as u8);
            }
        }
        v
    }
}

#[derive(Serialize, Deserialize, Clone, Debug, PartialEq, Eq)]
pub enum Dur {
    Buffer,
    SyncData,
    SyncAll,
}

#[derive(Serialize, Deserialize, Clone, Debug, PartialEq, Eq)]
pub enum BKind {
    Put(Val),
    Del,
    DelWeak,
}

#[derive(Serialize, Deserialize, Clone, Debug, PartialEq, Eq)]
pub struct BItem {
    pub ks: KsIdx,
    pub key: u8,
    pub kind: BKind,
}

#[derive(Serialize, Deserialize, Clone, Debug, PartialEq, Eq)]
pub enum Bnd {
    Unb,
    Inc(Vec<u8>),
    Exc(Vec<u8>),
}

#[derive(Serialize, Deserialize, Clone, Debug, PartialEq, Eq)]
pub enum RangeSpec {
    All,
    Range(Bnd, Bnd),
    Prefix(Vec<u8>),
}

#[derive(Serialize, Deserialize, Clone, Debug, PartialEq, Eq)]
pub enum ScanMode {
    Fwd,
    Rev,
    /// alternate ends: true = take from the back
    Ends(Vec<bool>),
}

#[derive(Serialize, Deserialize, Clone, Debug, PartialEq, Eq)]
pub enum ReadOp {
    Get { ks: KsIdx, key: u8 },
    Contains { ks: KsIdx, key: u8 },
    SizeOf { ks: KsIdx, key: u8 },
    Scan { ks: KsIdx, range: RangeSpec, mode: ScanMode },
    First { ks: KsIdx },
    Last { ks: KsIdx },
    Len { ks: KsIdx },
    IsEmpty { ks: KsIdx },
}

impl ReadOp {
    pub fn ks(&self) -> KsIdx {
        match self {
            Self::Get { ks, .. }
            | Self::Contains { ks, .. }
            | Self::SizeOf { ks, .. }
            | Self::Scan { ks, .. }
            | Self::First { ks }
            | Self::Last { ks }
            | Self::Len { ks }
            | Self::IsEmpty { ks } => *ks,
        }
    }
}

/// Deterministic update function for fetch_update / update_fetch
#[derive(Serialize, Deserialize, Clone, Debug, PartialEq, Eq)]
pub enum UpdFn {
    /// always set to this value
    Set(Val),
    /// always delete
    Delete,
    /// new value derived from the previous one: `#id<digest(prev)>`
    Derive { id: u32 },
    /// return the previous value unchanged
    Keep,
}

#[derive(Serialize, Deserialize, Clone, Debug, PartialEq, Eq)]
pub enum TxOp {
    Read(ReadOp),
    Insert { ks: KsIdx, key: u8, val: Val },
    /// insert a value derived from everything this transaction has read so far
    InsertDerived { ks: KsIdx, key: u8, id: u32 },
    Remove { ks: KsIdx, key: u8 },
    Take { ks: KsIdx, key: u8 },
    FetchUpdate { ks: KsIdx, key: u8, f: UpdFn },
    UpdateFetch { ks: KsIdx, key: u8, f: UpdFn },
}

#[derive(Serialize, Deserialize, Clone, Debug, PartialEq, Eq)]
pub enum TxEnd {
    Commit,
    Rollback,
    Drop,
}

#[derive(Serialize, Deserialize, Clone, Debug, PartialEq, Eq)]
pub enum ViewKind {
    Snapshot,
    ReadTx,
}

#[derive(Serialize, Deserialize, Clone, Debug, PartialEq, Eq)]
pub enum IterSrc {
    /// Keyspace::iter / range / prefix
    Keyspace,
    /// Readable::iter / range / prefix on the view in this slot
    View(u8),
    /// Readable on the open transaction in this slot
    Tx(u8),
}

#[derive(Serialize, Deserialize, Clone, Debug, PartialEq)]
pub enum Op {
    // ---- writes
    Insert { ks: KsIdx, key: u8, val: Val },
    Remove { ks: KsIdx, key: u8 },
    RemoveWeak { ks: KsIdx, key: u8 },
    Batch { items: Vec<BItem>, dur: Option<Dur> },
    Clear { ks: KsIdx },
    /// a batch is filled, then keyspace `ks` (which has items in it) is deleted, then the batch
    /// is committed
    BatchDeleteCommit { items: Vec<BItem>, ks: KsIdx },
    /// sorted by key; None = tombstone
    Ingest { ks: KsIdx, items: Vec<(u8, Option<Val>)> },
    /// helper single-ops of the transactional keyspace wrappers
    TxKsInsert { ks: KsIdx, key: u8, val: Val },
    TxKsRemove { ks: KsIdx, key: u8 },
    TxKsTake { ks: KsIdx, key: u8 },
    TxKsFetchUpdate { ks: KsIdx, key: u8, f: UpdFn },
    TxKsUpdateFetch { ks: KsIdx, key: u8, f: UpdFn },
    // ---- transactions (slots)
    TxBegin { slot: u8, dur: Option<Dur> },
    TxOp { slot: u8, op: TxOp },
    TxEnd { slot: u8, end: TxEnd },
    // ---- reads
    Read(ReadOp),
    // ---- views
    ViewOpen { slot: u8, kind: ViewKind },
    ViewClone { from: u8, to: u8 },
    ViewDrop { slot: u8 },
    ViewRead { slot: u8, op: ReadOp },
    IterOpen { slot: u8, src: IterSrc, ks: KsIdx, range: RangeSpec },
    IterStep { slot: u8, n: u8, back: bool },
    IterDrop { slot: u8 },
    /// open and close `n` snapshots (triggers the tracker's own periodic gc)
    ViewBurst { n: u32 },
    // ---- maintenance
    Rotate { ks: KsIdx },
    WorkerStep,
    Drain,
    MajorCompact { ks: KsIdx },
    Gc,
    Quiesce,
    Persist { mode: Dur },
    // ---- keyspace lifecycle
    CreateKs { ks: KsIdx },
    /// open an existing (or create) keyspace passing *different* options than at creation
    OpenKsWith { ks: KsIdx, opts: KsOpts },
    DeleteKs { ks: KsIdx },
    /// drop the user handle of a keyspace (deleted or not)
    DropHandle { ks: KsIdx },
    /// write through a retained handle of a deleted incarnation
    StaleInsert { ks: KsIdx, key: u8, val: Val },
    StaleRemove { ks: KsIdx, key: u8 },
    // ---- instance lifecycle
    /// clean close (drop every handle) and reopen
    Reopen,
    /// try to open the same directory again while handles are alive
    SecondOpen,
    /// cross-invariant
    Check,
    /// C18: everything is flushed and major-compacted - an assigned filter must have acted
    CheckFiltered,
    // ---- THR only (main program)
    /// run the client threads
    RunThreads,
}

impl Op {
    pub fn is_write(&self) -> bool {
        matches!(
            self,
            Op::Insert { .. }
                | Op::Remove { .. }
                | Op::RemoveWeak { .. }
                | Op::Batch { .. }
                | Op::Clear { .. }
                | Op::Ingest { .. }
                | Op::TxKsInsert { .. }
                | Op::TxKsRemove { .. }
                | Op::TxKsTake { .. }
                | Op::TxKsFetchUpdate { .. }
                | Op::TxKsUpdateFetch { .. }
                | Op::TxEnd { end: TxEnd::Commit, .. }
                | Op::CreateKs { .. }
                | Op::DeleteKs { .. }
        )
    }
    pub fn is_maintenance(&self) -> bool {
        matches!(
            self,
            Op::Rotate { .. }
                | Op::WorkerStep
                | Op::Drain
                | Op::MajorCompact { .. }
                | Op::Gc
                | Op::Quiesce
                | Op::Reopen
        )
    }
}

#[derive(Serialize, Deserialize, Clone, Debug, PartialEq, Eq)]
pub enum IoKind {
    Eio,
    Enospc,
    /// write only j bytes, then the disk is full
    Short(u32),
}

#[derive(Serialize, Deserialize, Clone, Debug, PartialEq, Eq)]
pub enum IoTarget {
    JournalWrite,
    JournalSync,
    JournalCreate,
    JournalTruncate,
    DirSync,
    /// any create / write / sync / rename below the meta keyspace (keyspaces/0) while
    /// `Database::delete_keyspace` is running
    MetaDuringDelete,
}

#[derive(Serialize, Deserialize, Clone, Debug, PartialEq, Eq)]
pub enum Fault {
    None,
    /// process-crash states: every classified call (points = None) or the listed call indices;
    /// torn = also every/sampled split of journal writes
    Crash {
        points: Option<Vec<u32>>,
        torn: bool,
        nested: bool,
    },
    /// power-loss states; variant 0 = drop all unsynced, 1 = subset of unsynced writes survive, 2 = torn tail
    Power {
        points: Option<Vec<u32>>,
        variant: u8,
        vseed: u64,
    },
    /// fail the n-th matching call (n = None: sweep every n in the runner)
    Io {
        kind: IoKind,
        target: IoTarget,
        n: Option<u32>,
        persistent: bool,
    },
    /// journal cuts; at = None sweeps every offset
    Cut {
        at: Option<(u64, bool)>,
    },
    /// journal byte damage; at = None sweeps every byte
    Damage {
        at: Option<(u64, u8)>,
        all_values: bool,
    },
    /// version marker contents (C17)
    Marker {
        bytes: Option<Vec<u8>>,
    },
}

#[derive(Serialize, Deserialize, Clone, Debug, PartialEq, Eq)]
pub enum Engine {
    Seq,
    Thr,
}

#[derive(Serialize, Deserialize, Clone, Debug, PartialEq)]
pub struct Case {
    pub prop: String,
    pub seed: u64,
    pub engine: Engine,
    pub cfg: Cfg,
    pub program: Vec<Op>,
    #[serde(default)]
    pub threads: Vec<Vec<Op>>,
    #[serde(default)]
    pub schedule: Option<Vec<u16>>,
    pub fault: Fault,
    /// run class label (evidence / swarm)
    #[serde(default)]
    pub class: String,
}

/// Replay file = case + what was violated when it was found
#[derive(Serialize, Deserialize, Clone, Debug)]
pub struct Replay {
    pub property: String,
    pub clause: String,
    pub detail: String,
    pub case: Case,
    #[serde(default)]
    pub known_finding: Option<String>,
}
