//! Reference model: sorted maps, frozen copies, transaction overlays.

use crate::case::*;
use std::collections::BTreeMap;
use std::ops::Bound;

pub type Map = BTreeMap<Vec<u8>, Vec<u8>>;

#[derive(Clone, Debug, PartialEq, Eq, Default)]
pub struct KsState {
    pub map: Map,
    /// incarnation number of this name (bumped on every re-creation)
    pub inc: u32,
}

/// Logical content of a database: existing keyspaces and their maps
#[derive(Clone, Debug, PartialEq, Eq, Default)]
pub struct State {
    pub ks: BTreeMap<KsIdx, KsState>,
}

impl State {
    pub fn map(&self, ks: KsIdx) -> Option<&Map> {
        self.ks.get(&ks).map(|k| &k.map)
    }
    pub fn map_mut(&mut self, ks: KsIdx) -> Option<&mut Map> {
        self.ks.get_mut(&ks).map(|k| &mut k.map)
    }
    pub fn digest(&self) -> u64 {
        let mut h = 17u64;
        for (i, k) in &self.ks {
            h = crate::rng::mix(h ^ u64::from(*i));
            for (a, b) in &k.map {
                h = crate::rng::hash_bytes(h, a);
                h = crate::rng::hash_bytes(h, b);
            }
        }
        h
    }
    pub fn brief(&self) -> String {
        let mut s = String::new();
        for (i, k) in &self.ks {
            s.push_str(&format!("ks{i}{{"));
            for (a, b) in &k.map {
                s.push_str(&format!("{}={} ", show(a), show(b)));
            }
            s.push_str("} ");
        }
        s
    }
}

pub fn show(b: &[u8]) -> String {
    let cut = &b[..b.len().min(24)];
    let mut s = String::new();
    for c in cut {
        if c.is_ascii_graphic() {
            s.push(*c as char);
        } else {
            s.push_str(&format!("\\x{c:02x}"));
        }
    }
    if b.len() > 24 {
        s.push_str(&format!("..({}B)", b.len()));
    }
    s
}

#[derive(Clone, Debug, PartialEq, Eq)]
pub enum ReadResult {
    Val(Option<Vec<u8>>),
    Bool(bool),
    Size(Option<u32>),
    Items(Vec<(Vec<u8>, Vec<u8>)>),
    Kv(Option<(Vec<u8>, Vec<u8>)>),
    Count(usize),
    Err(String),
}

impl ReadResult {
    pub fn brief(&self) -> String {
        match self {
            Self::Val(v) => format!("Val({:?})", v.as_ref().map(|x| show(x))),
            Self::Bool(b) => format!("Bool({b})"),
            Self::Size(s) => format!("Size({s:?})"),
            Self::Items(v) => format!(
                "Items[{}]",
                v.iter()
                    .map(|(k, v)| format!("{}={}", show(k), show(v)))
                    .collect::<Vec<_>>()
                    .join(", ")
            ),
            Self::Kv(v) => format!(
                "Kv({:?})",
                v.as_ref().map(|(k, v)| format!("{}={}", show(k), show(v)))
            ),
            Self::Count(c) => format!("Count({c})"),
            Self::Err(e) => format!("Err({e})"),
        }
    }
    pub fn digest(&self, h: u64) -> u64 {
        crate::rng::hash_bytes(h, self.brief_full().as_bytes())
    }
    fn brief_full(&self) -> String {
        format!("{self:?}")
    }
}

pub fn to_bound(b: &Bnd) -> Bound<Vec<u8>> {
    match b {
        Bnd::Unb => Bound::Unbounded,
        Bnd::Inc(v) => Bound::Included(v.clone()),
        Bnd::Exc(v) => Bound::Excluded(v.clone()),
    }
}

/// Smallest byte string greater than every string with this prefix (None = unbounded)
pub fn prefix_upper(p: &[u8]) -> Option<Vec<u8>> {
    let mut v = p.to_vec();
    while let Some(last) = v.last_mut() {
        if *last < 0xff {
            *last += 1;
            return Some(v);
        }
        v.pop();
    }
    None
}

pub fn in_range(k: &[u8], r: &RangeSpec) -> bool {
    match r {
        RangeSpec::All => true,
        RangeSpec::Prefix(p) => k.starts_with(p),
        RangeSpec::Range(lo, hi) => {
            let lo_ok = match lo {
                Bnd::Unb => true,
                Bnd::Inc(v) => k >= v.as_slice(),
                Bnd::Exc(v) => k > v.as_slice(),
            };
            let hi_ok = match hi {
                Bnd::Unb => true,
                Bnd::Inc(v) => k <= v.as_slice(),
                Bnd::Exc(v) => k < v.as_slice(),
            };
            lo_ok && hi_ok
        }
    }
}

/// std's BTreeMap::range panics on these; we never generate them
pub fn range_well_formed(r: &RangeSpec) -> bool {
    match r {
        RangeSpec::Range(lo, hi) => {
            let (l, le) = match lo {
                Bnd::Unb => return true,
                Bnd::Inc(v) => (v, false),
                Bnd::Exc(v) => (v, true),
            };
            let (h, he) = match hi {
                Bnd::Unb => return true,
                Bnd::Inc(v) => (v, false),
                Bnd::Exc(v) => (v, true),
            };
            if l > h {
                return false;
            }
            if l == h && le && he {
                return false;
            }
            true
        }
        _ => true,
    }
}

pub fn range_items(map: &Map, r: &RangeSpec) -> Vec<(Vec<u8>, Vec<u8>)> {
    map.iter()
        .filter(|(k, _)| in_range(k, r))
        .map(|(k, v)| (k.clone(), v.clone()))
        .collect()
}

/// Consumption order of a double-ended iterator over `items` under `mode`
pub fn consume(items: Vec<(Vec<u8>, Vec<u8>)>, mode: &ScanMode) -> Vec<(Vec<u8>, Vec<u8>)> {
    match mode {
        ScanMode::Fwd => items,
        ScanMode::Rev => items.into_iter().rev().collect(),
        ScanMode::Ends(pat) => {
            let mut dq: std::collections::VecDeque<_> = items.into();
            let mut out = vec![];
            let mut i = 0;
            while !dq.is_empty() {
                let back = pat.get(i).copied().unwrap_or(false);
                i += 1;
                if back {
                    out.push(dq.pop_back().unwrap());
                } else {
                    out.push(dq.pop_front().unwrap());
                }
            }
            out
        }
    }
}

pub fn model_read(map: &Map, keys: &[Vec<u8>], op: &ReadOp) -> ReadResult {
    match op {
        ReadOp::Get { key, .. } => ReadResult::Val(map.get(&keys[*key as usize]).cloned()),
        ReadOp::Contains { key, .. } => ReadResult::Bool(map.contains_key(&keys[*key as usize])),
        ReadOp::SizeOf { key, .. } => {
            ReadResult::Size(map.get(&keys[*key as usize]).map(|v| v.len() as u32))
        }
        ReadOp::Scan { range, mode, .. } => ReadResult::Items(consume(range_items(map, range), mode)),
        ReadOp::First { .. } => ReadResult::Kv(map.iter().next().map(|(k, v)| (k.clone(), v.clone()))),
        ReadOp::Last { .. } => {
            ReadResult::Kv(map.iter().next_back().map(|(k, v)| (k.clone(), v.clone())))
        }
        ReadOp::Len { .. } => ReadResult::Count(map.len()),
        ReadOp::IsEmpty { .. } => ReadResult::Bool(map.is_empty()),
    }
}

static EMPTY: Map = Map::new();

/// Model of an open write transaction: frozen snapshot plus overlay
#[derive(Clone, Debug)]
pub struct TxModel {
    pub snap: State,
    pub writes: BTreeMap<(KsIdx, Vec<u8>), Option<Vec<u8>>>,
    pub read_digest: u64,
}

pub fn derive_value(id: u32, digest: u64) -> Vec<u8> {
    format!("#{id}<{digest:016x}>").into_bytes()
}

pub fn apply_updfn(f: &UpdFn, prev: Option<&Vec<u8>>) -> Option<Vec<u8>> {
    match f {
        UpdFn::Set(v) => Some(v.bytes()),
        UpdFn::Delete => None,
        UpdFn::Keep => prev.cloned(),
        UpdFn::Derive { id } => {
            let d = match prev {
                Some(p) => crate::rng::hash_bytes(1, p),
                None => 0,
            };
            Some(derive_value(*id, d))
        }
    }
}

impl TxModel {
    pub fn new(snap: State) -> Self {
        Self {
            snap,
            writes: BTreeMap::new(),
            read_digest: 0,
        }
    }

    pub fn effective(&self, ks: KsIdx) -> Map {
        let mut m = self.snap.map(ks).cloned().unwrap_or_default();
        for ((k, key), v) in &self.writes {
            if *k == ks {
                match v {
                    Some(v) => {
                        m.insert(key.clone(), v.clone());
                    }
                    None => {
                        m.remove(key);
                    }
                }
            }
        }
        m
    }

    pub fn get(&self, ks: KsIdx, key: &[u8]) -> Option<Vec<u8>> {
        if let Some(w) = self.writes.get(&(ks, key.to_vec())) {
            return w.clone();
        }
        self.snap.map(ks).unwrap_or(&EMPTY).get(key).cloned()
    }

    /// Executes a tx op on the model, returning what the real call must return
    pub fn exec(&mut self, keys: &[Vec<u8>], op: &TxOp) -> ReadResult {
        match op {
            TxOp::Read(r) => {
                let m = self.effective(r.ks());
                let res = model_read(&m, keys, r);
                self.read_digest = res.digest(self.read_digest);
                res
            }
            TxOp::Insert { ks, key, val } => {
                self.writes
                    .insert((*ks, keys[*key as usize].clone()), Some(val.bytes()));
                ReadResult::Bool(true)
            }
            TxOp::InsertDerived { ks, key, id } => {
                let v = derive_value(*id, self.read_digest);
                self.writes.insert((*ks, keys[*key as usize].clone()), Some(v));
                ReadResult::Bool(true)
            }
            TxOp::Remove { ks, key } => {
                self.writes.insert((*ks, keys[*key as usize].clone()), None);
                ReadResult::Bool(true)
            }
            TxOp::Take { ks, key } => {
                let k = &keys[*key as usize];
                let prev = self.get(*ks, k);
                if prev.is_some() {
                    self.writes.insert((*ks, k.clone()), None);
                }
                let res = ReadResult::Val(prev);
                self.read_digest = res.digest(self.read_digest);
                res
            }
            TxOp::FetchUpdate { ks, key, f } | TxOp::UpdateFetch { ks, key, f } => {
                let k = &keys[*key as usize];
                let prev = self.get(*ks, k);
                let new = apply_updfn(f, prev.as_ref());
                match &new {
                    Some(v) => {
                        if prev.as_ref() != Some(v) {
                            self.writes.insert((*ks, k.clone()), Some(v.clone()));
                        }
                    }
                    None => {
                        if prev.is_some() {
                            self.writes.insert((*ks, k.clone()), None);
                        }
                    }
                }
                let res = if matches!(op, TxOp::FetchUpdate { .. }) {
                    ReadResult::Val(prev)
                } else {
                    ReadResult::Val(new)
                };
                self.read_digest = res.digest(self.read_digest);
                res
            }
        }
    }

    /// Applies the transaction's final writes to a state (commit)
    pub fn apply_to(&self, st: &mut State) {
        for ((ks, key), v) in &self.writes {
            if let Some(m) = st.map_mut(*ks) {
                match v {
                    Some(v) => {
                        m.insert(key.clone(), v.clone());
                    }
                    None => {
                        m.remove(key);
                    }
                }
            }
        }
    }
}

/// Applies a plain write op to a state. Returns false if the op is not a plain data write.
pub fn apply_write(st: &mut State, keys: &[Vec<u8>], op: &Op) -> bool {
    match op {
        Op::Insert { ks, key, val } | Op::TxKsInsert { ks, key, val } => {
            if let Some(m) = st.map_mut(*ks) {
                m.insert(keys[*key as usize].clone(), val.bytes());
            }
            true
        }
        Op::Remove { ks, key } | Op::RemoveWeak { ks, key } | Op::TxKsRemove { ks, key } | Op::TxKsTake { ks, key } => {
            if let Some(m) = st.map_mut(*ks) {
                m.remove(&keys[*key as usize]);
            }
            true
        }
        Op::TxKsFetchUpdate { ks, key, f } | Op::TxKsUpdateFetch { ks, key, f } => {
            if let Some(m) = st.map_mut(*ks) {
                let k = &keys[*key as usize];
                let prev = m.get(k).cloned();
                match apply_updfn(f, prev.as_ref()) {
                    Some(v) => {
                        m.insert(k.clone(), v);
                    }
                    None => {
                        m.remove(k);
                    }
                }
            }
            true
        }
        Op::Batch { items, .. } => {
            for it in items {
                if let Some(m) = st.map_mut(it.ks) {
                    match &it.kind {
                        BKind::Put(v) => {
                            m.insert(keys[it.key as usize].clone(), v.bytes());
                        }
                        BKind::Del | BKind::DelWeak => {
                            m.remove(&keys[it.key as usize]);
                        }
                    }
                }
            }
            true
        }
        Op::Clear { ks } => {
            if let Some(m) = st.map_mut(*ks) {
                m.clear();
            }
            true
        }
        Op::Ingest { ks, items } => {
            if let Some(m) = st.map_mut(*ks) {
                for (k, v) in items {
                    match v {
                        Some(v) => {
                            m.insert(keys[*k as usize].clone(), v.bytes());
                        }
                        None => {
                            m.remove(&keys[*k as usize]);
                        }
                    }
                }
            }
            true
        }
        Op::CreateKs { ks } => {
            let inc = st.ks.get(ks).map_or(0, |k| k.inc);
            st.ks.entry(*ks).or_insert(KsState {
                map: Map::new(),
                inc,
            });
            true
        }
        Op::DeleteKs { ks } => {
            st.ks.remove(ks);
            true
        }
        _ => false,
    }
}
