//! libc seam: this binary defines the libc entry points that std::fs calls, so every write,
//! sync, truncate, unlink, mkdir, create and rename issued by fjall *and* lsm-tree passes
//! through here. Calls on paths below the tracked directory are classified and handed to the
//! installed handler, which may snapshot the directory (crash / power-loss states), fail the
//! call (I/O faults) or let it pass.

#![allow(clippy::missing_safety_doc)]

use libc::{c_char, c_int, c_long, c_uint, c_void, mode_t, off_t, size_t, ssize_t};
use std::cell::Cell;
use std::sync::atomic::{AtomicBool, AtomicU64, Ordering};
use std::sync::Mutex;

#[derive(Clone, Copy, Debug, PartialEq, Eq)]
pub enum Kind {
    Write,
    Fsync,
    Fdatasync,
    Truncate,
    Unlink,
    Rmdir,
    Mkdir,
    Create,
    Rename,
}

impl Kind {
    pub fn is_sync(self) -> bool {
        matches!(self, Kind::Fsync | Kind::Fdatasync)
    }
    pub fn name(self) -> &'static str {
        match self {
            Kind::Write => "write",
            Kind::Fsync => "fsync",
            Kind::Fdatasync => "fdatasync",
            Kind::Truncate => "truncate",
            Kind::Unlink => "unlink",
            Kind::Rmdir => "rmdir",
            Kind::Mkdir => "mkdir",
            Kind::Create => "create",
            Kind::Rename => "rename",
        }
    }
}

pub struct Call<'a> {
    pub kind: Kind,
    /// path relative to the tracked directory
    pub rel: &'a str,
    pub fd: c_int,
    /// bytes about to be written (Write)
    pub data: &'a [u8],
    /// file offset the write lands at (Write), new length (Truncate)
    pub offset: u64,
    /// rename target, relative
    pub rel2: &'a str,
}

pub enum Action {
    Pass,
    Fail(c_int),
    /// write only the first j bytes and report j
    Short(usize),
}

pub type Handler = Box<dyn FnMut(&Call) -> Action + Send>;

static ACTIVE: AtomicBool = AtomicBool::new(false);
static TRACKED: Mutex<String> = Mutex::new(String::new());
static HANDLER: Mutex<Option<Handler>> = Mutex::new(None);
static RANDOM_STATE: AtomicU64 = AtomicU64::new(0x1234_5678_9abc_def0);
pub static SEEN_CALLS: AtomicU64 = AtomicU64::new(0);

thread_local! {
    static BYPASS: Cell<u32> = const { Cell::new(0) };
}

/// Runs `f` with interposition disabled on this thread (harness I/O).
pub fn bypass<T>(f: impl FnOnce() -> T) -> T {
    BYPASS.with(|b| b.set(b.get() + 1));
    let r = f();
    BYPASS.with(|b| b.set(b.get() - 1));
    r
}

pub fn set_random_seed(seed: u64) {
    RANDOM_STATE.store(seed | 1, Ordering::SeqCst);
}

/// Starts classifying calls below `dir` (absolute, no trailing slash) with `handler`.
pub fn track(dir: &str, handler: Handler) {
    *TRACKED.lock().unwrap() = dir.to_string();
    *HANDLER.lock().unwrap() = Some(handler);
    ACTIVE.store(true, Ordering::SeqCst);
}

pub fn untrack() -> Option<Handler> {
    ACTIVE.store(false, Ordering::SeqCst);
    HANDLER.lock().unwrap().take()
}

fn enabled() -> bool {
    ACTIVE.load(Ordering::Relaxed) && BYPASS.with(|b| b.get() == 0)
}

unsafe fn set_errno(e: c_int) {
    *libc::__errno_location() = e;
}

fn fd_path(fd: c_int) -> Option<String> {
    let link = format!("/proc/self/fd/{fd}\0");
    let mut buf = [0u8; 4096];
    let n = unsafe {
        libc::syscall(
            libc::SYS_readlink,
            link.as_ptr() as *const c_char,
            buf.as_mut_ptr() as *mut c_char,
            buf.len(),
        )
    };
    if n <= 0 {
        return None;
    }
    let mut s = String::from_utf8_lossy(&buf[..n as usize]).into_owned();
    if let Some(x) = s.strip_suffix(" (deleted)") {
        s = x.to_string();
    }
    Some(s)
}

unsafe fn cstr(p: *const c_char) -> String {
    if p.is_null() {
        return String::new();
    }
    std::ffi::CStr::from_ptr(p).to_string_lossy().into_owned()
}

fn abs_at(dirfd: c_int, path: &str) -> Option<String> {
    if path.starts_with('/') {
        return Some(path.to_string());
    }
    if dirfd == libc::AT_FDCWD {
        let cwd = std::env::current_dir().ok()?;
        return Some(format!("{}/{}", cwd.display(), path));
    }
    let d = fd_path(dirfd)?;
    Some(format!("{d}/{path}"))
}

fn rel_of(abs: &str) -> Option<String> {
    let t = TRACKED.lock().unwrap();
    if t.is_empty() {
        return None;
    }
    if abs == t.as_str() {
        return Some(String::new());
    }
    let rest = abs.strip_prefix(t.as_str())?;
    let rest = rest.strip_prefix('/')?;
    Some(rest.to_string())
}

fn dispatch(call: &Call) -> Action {
    SEEN_CALLS.fetch_add(1, Ordering::Relaxed);
    // the handler runs with interposition off so that its own I/O passes through
    bypass(|| {
        let mut g = HANDLER.lock().unwrap();
        match g.as_mut() {
            Some(h) => h(call),
            None => Action::Pass,
        }
    })
}

unsafe fn file_offset(fd: c_int) -> u64 {
    let flags = libc::syscall(libc::SYS_fcntl, fd, libc::F_GETFL) as c_int;
    if flags >= 0 && (flags & libc::O_APPEND) != 0 {
        let mut st: libc::stat = std::mem::zeroed();
        if libc::syscall(libc::SYS_fstat, fd, &mut st as *mut libc::stat) == 0 {
            return st.st_size as u64;
        }
    }
    let pos = libc::syscall(libc::SYS_lseek, fd, 0 as off_t, libc::SEEK_CUR);
    if pos < 0 {
        0
    } else {
        pos as u64
    }
}

unsafe fn raw_write(fd: c_int, buf: *const c_void, n: size_t) -> ssize_t {
    libc::syscall(libc::SYS_write, fd, buf, n) as ssize_t
}

#[no_mangle]
pub unsafe extern "C" fn write(fd: c_int, buf: *const c_void, n: size_t) -> ssize_t {
    if enabled() && fd > 2 {
        if let Some(rel) = fd_path(fd).and_then(|p| rel_of(&p)) {
            let data = std::slice::from_raw_parts(buf as *const u8, n);
            let call = Call {
                kind: Kind::Write,
                rel: &rel,
                fd,
                data,
                offset: file_offset(fd),
                rel2: "",
            };
            match dispatch(&call) {
                Action::Pass => {}
                Action::Fail(e) => {
                    set_errno(e);
                    return -1;
                }
                Action::Short(j) => {
                    let j = j.min(n);
                    if j == 0 {
                        set_errno(libc::ENOSPC);
                        return -1;
                    }
                    return raw_write(fd, buf, j);
                }
            }
        }
    }
    raw_write(fd, buf, n)
}

#[no_mangle]
pub unsafe extern "C" fn pwrite64(fd: c_int, buf: *const c_void, n: size_t, off: off_t) -> ssize_t {
    if enabled() && fd > 2 {
        if let Some(rel) = fd_path(fd).and_then(|p| rel_of(&p)) {
            let data = std::slice::from_raw_parts(buf as *const u8, n);
            let call = Call {
                kind: Kind::Write,
                rel: &rel,
                fd,
                data,
                offset: off as u64,
                rel2: "",
            };
            match dispatch(&call) {
                Action::Pass => {}
                Action::Fail(e) => {
                    set_errno(e);
                    return -1;
                }
                Action::Short(j) => {
                    let j = j.min(n);
                    if j == 0 {
                        set_errno(libc::ENOSPC);
                        return -1;
                    }
                    return libc::syscall(libc::SYS_pwrite64, fd, buf, j, off) as ssize_t;
                }
            }
        }
    }
    libc::syscall(libc::SYS_pwrite64, fd, buf, n, off) as ssize_t
}

#[no_mangle]
pub unsafe extern "C" fn pwrite(fd: c_int, buf: *const c_void, n: size_t, off: off_t) -> ssize_t {
    pwrite64(fd, buf, n, off)
}

#[no_mangle]
pub unsafe extern "C" fn writev(fd: c_int, iov: *const libc::iovec, cnt: c_int) -> ssize_t {
    if enabled() && fd > 2 && fd_path(fd).and_then(|p| rel_of(&p)).is_some() {
        // Route vectored writes through `write` one buffer at a time (a short total is legal)
        let mut total: ssize_t = 0;
        for i in 0..cnt {
            let v = &*iov.add(i as usize);
            if v.iov_len == 0 {
                continue;
            }
            let r = write(fd, v.iov_base, v.iov_len);
            if r < 0 {
                return if total > 0 { total } else { r };
            }
            total += r;
            if (r as usize) < v.iov_len {
                break;
            }
        }
        return total;
    }
    libc::syscall(libc::SYS_writev, fd, iov, cnt) as ssize_t
}

unsafe fn sync_common(fd: c_int, kind: Kind, nr: c_long) -> c_int {
    if enabled() {
        if let Some(rel) = fd_path(fd).and_then(|p| rel_of(&p)) {
            let call = Call {
                kind,
                rel: &rel,
                fd,
                data: &[],
                offset: 0,
                rel2: "",
            };
            match dispatch(&call) {
                Action::Pass | Action::Short(_) => {}
                Action::Fail(e) => {
                    set_errno(e);
                    return -1;
                }
            }
            let r = libc::syscall(nr, fd) as c_int;
            // tell the handler that the sync completed (power-loss images)
            if r == 0 {
                bypass(|| {
                    if let Some(cb) = SYNC_DONE.lock().unwrap().as_mut() {
                        cb(&rel, fd);
                    }
                });
            }
            return r;
        }
    }
    libc::syscall(nr, fd) as c_int
}

pub type SyncDone = Box<dyn FnMut(&str, c_int) + Send>;
pub static SYNC_DONE: Mutex<Option<SyncDone>> = Mutex::new(None);

#[no_mangle]
pub unsafe extern "C" fn fsync(fd: c_int) -> c_int {
    sync_common(fd, Kind::Fsync, libc::SYS_fsync)
}

#[no_mangle]
pub unsafe extern "C" fn fdatasync(fd: c_int) -> c_int {
    sync_common(fd, Kind::Fdatasync, libc::SYS_fdatasync)
}

#[no_mangle]
pub unsafe extern "C" fn ftruncate64(fd: c_int, len: off_t) -> c_int {
    if enabled() {
        if let Some(rel) = fd_path(fd).and_then(|p| rel_of(&p)) {
            let call = Call {
                kind: Kind::Truncate,
                rel: &rel,
                fd,
                data: &[],
                offset: len as u64,
                rel2: "",
            };
            if let Action::Fail(e) = dispatch(&call) {
                set_errno(e);
                return -1;
            }
        }
    }
    libc::syscall(libc::SYS_ftruncate, fd, len) as c_int
}

#[no_mangle]
pub unsafe extern "C" fn ftruncate(fd: c_int, len: off_t) -> c_int {
    ftruncate64(fd, len)
}

unsafe fn path_call(kind: Kind, dirfd: c_int, path: *const c_char) -> Option<c_int> {
    if enabled() {
        let p = cstr(path);
        if let Some(rel) = abs_at(dirfd, &p).and_then(|a| rel_of(&a)) {
            let call = Call {
                kind,
                rel: &rel,
                fd: -1,
                data: &[],
                offset: 0,
                rel2: "",
            };
            if let Action::Fail(e) = dispatch(&call) {
                set_errno(e);
                return Some(-1);
            }
        }
    }
    None
}

#[no_mangle]
pub unsafe extern "C" fn unlink(path: *const c_char) -> c_int {
    if let Some(r) = path_call(Kind::Unlink, libc::AT_FDCWD, path) {
        return r;
    }
    libc::syscall(libc::SYS_unlink, path) as c_int
}

#[no_mangle]
pub unsafe extern "C" fn unlinkat(dirfd: c_int, path: *const c_char, flags: c_int) -> c_int {
    let kind = if flags & libc::AT_REMOVEDIR != 0 {
        Kind::Rmdir
    } else {
        Kind::Unlink
    };
    if let Some(r) = path_call(kind, dirfd, path) {
        return r;
    }
    libc::syscall(libc::SYS_unlinkat, dirfd, path, flags) as c_int
}

#[no_mangle]
pub unsafe extern "C" fn rmdir(path: *const c_char) -> c_int {
    if let Some(r) = path_call(Kind::Rmdir, libc::AT_FDCWD, path) {
        return r;
    }
    libc::syscall(libc::SYS_rmdir, path) as c_int
}

#[no_mangle]
pub unsafe extern "C" fn mkdir(path: *const c_char, mode: mode_t) -> c_int {
    if let Some(r) = path_call(Kind::Mkdir, libc::AT_FDCWD, path) {
        return r;
    }
    libc::syscall(libc::SYS_mkdir, path, mode as c_uint) as c_int
}

#[no_mangle]
pub unsafe extern "C" fn mkdirat(dirfd: c_int, path: *const c_char, mode: mode_t) -> c_int {
    if let Some(r) = path_call(Kind::Mkdir, dirfd, path) {
        return r;
    }
    libc::syscall(libc::SYS_mkdirat, dirfd, path, mode as c_uint) as c_int
}

unsafe fn open_common(dirfd: c_int, path: *const c_char, flags: c_int, mode: mode_t) -> c_int {
    if enabled() && (flags & (libc::O_CREAT | libc::O_TRUNC)) != 0 {
        let p = cstr(path);
        if let Some(rel) = abs_at(dirfd, &p).and_then(|a| rel_of(&a)) {
            let call = Call {
                kind: Kind::Create,
                rel: &rel,
                fd: -1,
                data: &[],
                offset: 0,
                rel2: "",
            };
            if let Action::Fail(e) = dispatch(&call) {
                set_errno(e);
                return -1;
            }
        }
    }
    libc::syscall(libc::SYS_openat, dirfd, path, flags, mode as c_uint) as c_int
}

#[no_mangle]
pub unsafe extern "C" fn open64(path: *const c_char, flags: c_int, mode: mode_t) -> c_int {
    open_common(libc::AT_FDCWD, path, flags | libc::O_LARGEFILE, mode)
}

#[no_mangle]
pub unsafe extern "C" fn open(path: *const c_char, flags: c_int, mode: mode_t) -> c_int {
    open_common(libc::AT_FDCWD, path, flags, mode)
}

#[no_mangle]
pub unsafe extern "C" fn openat64(dirfd: c_int, path: *const c_char, flags: c_int, mode: mode_t) -> c_int {
    open_common(dirfd, path, flags | libc::O_LARGEFILE, mode)
}

#[no_mangle]
pub unsafe extern "C" fn openat(dirfd: c_int, path: *const c_char, flags: c_int, mode: mode_t) -> c_int {
    open_common(dirfd, path, flags, mode)
}

unsafe fn rename_common(od: c_int, old: *const c_char, nd: c_int, new: *const c_char) -> Option<c_int> {
    if enabled() {
        let o = abs_at(od, &cstr(old)).and_then(|a| rel_of(&a));
        let n = abs_at(nd, &cstr(new)).and_then(|a| rel_of(&a));
        if o.is_some() || n.is_some() {
            let o = o.unwrap_or_default();
            let n = n.unwrap_or_default();
            let call = Call {
                kind: Kind::Rename,
                rel: &o,
                fd: -1,
                data: &[],
                offset: 0,
                rel2: &n,
            };
            if let Action::Fail(e) = dispatch(&call) {
                set_errno(e);
                return Some(-1);
            }
        }
    }
    None
}

#[no_mangle]
pub unsafe extern "C" fn rename(old: *const c_char, new: *const c_char) -> c_int {
    if let Some(r) = rename_common(libc::AT_FDCWD, old, libc::AT_FDCWD, new) {
        return r;
    }
    libc::syscall(libc::SYS_rename, old, new) as c_int
}

#[no_mangle]
pub unsafe extern "C" fn renameat(od: c_int, old: *const c_char, nd: c_int, new: *const c_char) -> c_int {
    if let Some(r) = rename_common(od, old, nd, new) {
        return r;
    }
    libc::syscall(libc::SYS_renameat, od, old, nd, new) as c_int
}

/// Deterministic "randomness": makes std's RandomState (HashSet in WriteBatch::commit) and
/// temp-file names a function of the seed.
#[no_mangle]
pub unsafe extern "C" fn getrandom(buf: *mut c_void, n: size_t, _flags: c_uint) -> ssize_t {
    let out = std::slice::from_raw_parts_mut(buf as *mut u8, n);
    for b in out.iter_mut() {
        let s = RANDOM_STATE.fetch_add(0x9E37_79B9_7F4A_7C15, Ordering::Relaxed);
        *b = (crate::rng::mix(s) >> 24) as u8;
    }
    n as ssize_t
}

// ---------------------------------------------------------------------------------------
// Thread creation seam: a thread created by a scheduler-controlled thread is registered with
// the scheduler at creation (program order => logical id) and parks before it executes its
// first instruction of user code, whatever hooks the code under test has (or has lost). When
// its start routine has returned (every value it owned is dropped) it leaves the schedule.

type StartFn = extern "C" fn(*mut c_void) -> *mut c_void;
type PthreadCreate =
    unsafe extern "C" fn(*mut libc::pthread_t, *const libc::pthread_attr_t, StartFn, *mut c_void) -> c_int;

struct Tramp {
    start: StartFn,
    arg: *mut c_void,
    token: u64,
}

extern "C" fn trampoline(p: *mut c_void) -> *mut c_void {
    let t = unsafe { Box::from_raw(p.cast::<Tramp>()) };
    crate::sched::thread_enter(t.token);
    let r = (t.start)(t.arg);
    crate::sched::thread_exit();
    r
}

static REAL_PTHREAD_CREATE: std::sync::atomic::AtomicUsize = std::sync::atomic::AtomicUsize::new(0);

#[no_mangle]
pub unsafe extern "C" fn pthread_create(
    thread: *mut libc::pthread_t,
    attr: *const libc::pthread_attr_t,
    start: StartFn,
    arg: *mut c_void,
) -> c_int {
    let mut real = REAL_PTHREAD_CREATE.load(Ordering::Relaxed);
    if real == 0 {
        real = libc::dlsym(libc::RTLD_NEXT, c"pthread_create".as_ptr()) as usize;
        if real == 0 {
            libc::abort();
        }
        REAL_PTHREAD_CREATE.store(real, Ordering::Relaxed);
    }
    let real: PthreadCreate = std::mem::transmute(real);
    let token = crate::sched::token_for_new_thread();
    if token == 0 {
        return real(thread, attr, start, arg);
    }
    let b = Box::into_raw(Box::new(Tramp { start, arg, token }));
    let rc = real(thread, attr, trampoline, b.cast());
    if rc != 0 {
        drop(Box::from_raw(b));
        crate::sched::thread_never_started(token);
    }
    rc
}
