//! Opening / closing real fjall instances from a `Cfg`.

use crate::case::*;
use fjall::{
    compaction::filter::{CompactionFilter, Context, Factory, ItemAccessor, Verdict},
    config::*,
    CompressionType, Database, Keyspace, KeyspaceCreateOptions, KvSeparationOptions,
    OptimisticTxDatabase, OptimisticTxKeyspace, SingleWriterTxDatabase, SingleWriterTxKeyspace,
};
use std::path::Path;
use std::sync::Arc;

pub struct Instance {
    pub db: Database,
    pub sw: Option<SingleWriterTxDatabase>,
    pub opt: Option<OptimisticTxDatabase>,
    /// user handles by name index
    pub ks: Vec<Option<Keyspace>>,
    pub sw_ks: Vec<Option<SingleWriterTxKeyspace>>,
    pub opt_ks: Vec<Option<OptimisticTxKeyspace>>,
    /// retained handles of deleted incarnations
    pub stale: Vec<Vec<Keyspace>>,
}

pub const REPLACED_PREFIX: &[u8] = b"~F~";

pub fn filtered_value(v: &[u8]) -> Vec<u8> {
    let mut out = REPLACED_PREFIX.to_vec();
    out.extend_from_slice(&v[..v.len().min(12)]);
    out
}

struct Mod3Filter;
impl CompactionFilter for Mod3Filter {
    fn filter_item(&mut self, item: ItemAccessor<'_>, _ctx: &Context) -> lsm_tree::Result<Verdict> {
        let k = item.key();
        match k.first().copied().unwrap_or(0) % 3 {
            0 => Ok(Verdict::Keep),
            1 => Ok(Verdict::Remove),
            _ => {
                let v = item.value()?;
                if v.starts_with(REPLACED_PREFIX) {
                    Ok(Verdict::Keep)
                } else {
                    Ok(Verdict::ReplaceValue(filtered_value(&v).into()))
                }
            }
        }
    }
}
struct Mod3Factory;
impl Factory for Mod3Factory {
    fn name(&self) -> &str {
        "mod3"
    }
    fn make_filter(&self, _ctx: &Context) -> Box<dyn CompactionFilter> {
        Box::new(Mod3Filter)
    }
}

fn lz(b: bool) -> CompressionType {
    if b {
        CompressionType::Lz4
    } else {
        CompressionType::None
    }
}

pub fn make_opts(o: &KsOpts) -> KeyspaceCreateOptions {
    let mut k = KeyspaceCreateOptions::default();
    if o.max_memtable > 0 {
        k = k.max_memtable_size(o.max_memtable);
    }
    if let Some(b) = &o.blob {
        k = k.with_kv_separation(Some(
            KvSeparationOptions::default()
                .separation_threshold(b.threshold)
                .file_target_size(b.file_target)
                .staleness_threshold(b.staleness)
                .age_cutoff(b.age_cutoff)
                .compression(lz(b.lz4)),
        ));
    }
    k = match &o.strategy {
        Strategy::Leveled { l0, target, ratios } => k.compaction_strategy(Arc::new(
            fjall::compaction::Leveled::default()
                .with_l0_threshold(*l0)
                .with_table_target_size(*target)
                .with_level_ratio_policy(ratios.clone()),
        )),
        Strategy::Fifo { limit } => {
            k.compaction_strategy(Arc::new(fjall::compaction::Fifo::new(*limit, None)))
        }
    };
    k = k.manual_journal_persist(o.manual_persist);
    if let Some(e) = &o.extra {
        if !e.block_size.is_empty() {
            k = k.data_block_size_policy(BlockSizePolicy::new(e.block_size.clone()));
        }
        if !e.restart_interval.is_empty() {
            k = k.data_block_restart_interval_policy(RestartIntervalPolicy::new(
                e.restart_interval.clone(),
            ));
        }
        if !e.hash_ratio.is_empty() {
            k = k.data_block_hash_ratio_policy(HashRatioPolicy::new(e.hash_ratio.clone()));
        }
        if !e.index_pinning.is_empty() {
            k = k.index_block_pinning_policy(PinningPolicy::new(e.index_pinning.clone()));
        }
        if !e.filter_pinning.is_empty() {
            k = k.filter_block_pinning_policy(PinningPolicy::new(e.filter_pinning.clone()));
        }
        if !e.index_partitioning.is_empty() {
            k = k.index_block_partitioning_policy(PartitioningPolicy::new(
                e.index_partitioning.clone(),
            ));
        }
        if !e.filter_partitioning.is_empty() {
            k = k.filter_block_partitioning_policy(PartitioningPolicy::new(
                e.filter_partitioning.clone(),
            ));
        }
        if !e.filter_policy.is_empty() {
            k = k.filter_policy(FilterPolicy::new(
                e.filter_policy
                    .iter()
                    .map(|(t, p)| match t {
                        0 => FilterPolicyEntry::None,
                        1 => FilterPolicyEntry::Bloom(BloomConstructionPolicy::FalsePositiveRate(*p)),
                        _ => FilterPolicyEntry::Bloom(BloomConstructionPolicy::BitsPerKey(*p)),
                    })
                    .collect::<Vec<_>>(),
            ));
        }
        if !e.data_compression.is_empty() {
            k = k.data_block_compression_policy(CompressionPolicy::new(
                e.data_compression.iter().map(|b| lz(*b)).collect::<Vec<_>>(),
            ));
        }
        if !e.index_compression.is_empty() {
            k = k.index_block_compression_policy(CompressionPolicy::new(
                e.index_compression.iter().map(|b| lz(*b)).collect::<Vec<_>>(),
            ));
        }
        k = k.expect_point_read_hits(e.expect_point_read_hits);
    }
    k
}

fn err<E: std::fmt::Debug>(e: E) -> String {
    format!("{e:?}")
}

impl Instance {
    /// Opens (creating if needed) the database at `dir`.
    pub fn open(dir: &Path, cfg: &Cfg) -> Result<Self, String> {
        Self::open_with(dir, cfg, cfg.journal_lz4, cfg.workers)
    }

    pub fn open_with(dir: &Path, cfg: &Cfg, lz4: bool, workers: usize) -> Result<Self, String> {
        let filtered = cfg.filtered.clone();
        let assigner: fjall_assigner::Assigner = Arc::new(move |name: &str| {
            if filtered.iter().any(|n| n == name) {
                Some(Arc::new(Mod3Factory) as Arc<dyn Factory>)
            } else {
                None
            }
        });
        let n = cfg.names.len();
        macro_rules! build {
            ($b:expr) => {{
                let mut b = $b
                    .worker_threads_unchecked(workers)
                    .journal_compression(lz(lz4))
                    .manual_journal_persist(cfg.manual_persist);
                if !cfg.filtered.is_empty() {
                    b = b.with_compaction_filter_factories(assigner.clone());
                }
                b.open().map_err(err)?
            }};
        }
        let (db, sw, opt) = match cfg.db_kind {
            DbKind::Plain => (build!(Database::builder(dir)), None, None),
            DbKind::SingleWriter => {
                let t = build!(SingleWriterTxDatabase::builder(dir));
                (t.inner().clone(), Some(t), None)
            }
            DbKind::Optimistic => {
                let t = build!(OptimisticTxDatabase::builder(dir));
                (t.inner().clone(), None, Some(t))
            }
        };
        Ok(Self {
            db,
            sw,
            opt,
            ks: vec![None; n],
            sw_ks: (0..n).map(|_| None).collect(),
            opt_ks: (0..n).map(|_| None).collect(),
            stale: vec![vec![]; n],
        })
    }

    /// Opens a handle for name index `i` with the given options (creating the keyspace if absent)
    pub fn open_ks(&mut self, cfg: &Cfg, i: usize, opts: &KsOpts) -> Result<(), String> {
        let name = &cfg.names[i];
        let o = opts.clone();
        let ks = match (&self.sw, &self.opt) {
            (Some(t), _) => {
                let k = t.keyspace(name, move || make_opts(&o)).map_err(err)?;
                let inner = k.inner().clone();
                self.sw_ks[i] = Some(k);
                inner
            }
            (_, Some(t)) => {
                let k = t.keyspace(name, move || make_opts(&o)).map_err(err)?;
                let inner = k.inner().clone();
                self.opt_ks[i] = Some(k);
                inner
            }
            _ => self.db.keyspace(name, move || make_opts(&o)).map_err(err)?,
        };
        self.ks[i] = Some(ks);
        Ok(())
    }

    pub fn drop_ks_handle(&mut self, i: usize) {
        self.ks[i] = None;
        self.sw_ks[i] = None;
        self.opt_ks[i] = None;
    }

    pub fn k(&self, i: KsIdx) -> Option<&Keyspace> {
        self.ks.get(i as usize).and_then(|k| k.as_ref())
    }
}

mod fjall_assigner {
    use std::sync::Arc;
    pub type Assigner = Arc<
        dyn Fn(&str) -> Option<Arc<dyn fjall::compaction::filter::Factory>> + Send + Sync,
    >;
}
