//! Seeded generators: one integer decides the whole case (swarm style: sizes, mixes, options,
//! maintenance density and fault plan are all drawn per case).

use crate::case::*;
use crate::rng::Rng;

#[derive(Clone, Copy, PartialEq, Eq, Debug)]
pub enum Tier {
    Quick,
    Thorough,
}

pub const KEY_POOL: &[&[u8]] = &[
    b"a", b"ab", b"abc", b"b", b"b\0", b"c", b"ca", b"\xff", b"\xff\xff", b"k1", b"k2", b"m", b"z",
    b"\x00", b"b\x00\x00",
];

/// Operation mix weights
#[derive(Clone, Debug)]
pub struct Mix {
    pub insert: u32,
    pub remove: u32,
    pub remove_weak: u32,
    pub batch: u32,
    pub clear: u32,
    pub ingest: u32,
    pub read: u32,
    pub scan: u32,
    pub view: u32,
    pub iter: u32,
    pub tx: u32,
    pub txks: u32,
    pub maint: u32,
    pub persist: u32,
    pub reopen: u32,
    pub ks_life: u32,
    pub check: u32,
    pub second_open: u32,
    pub burst: u32,
}

impl Mix {
    pub fn zero() -> Self {
        Self {
            insert: 0,
            remove: 0,
            remove_weak: 0,
            batch: 0,
            clear: 0,
            ingest: 0,
            read: 0,
            scan: 0,
            view: 0,
            iter: 0,
            tx: 0,
            txks: 0,
            maint: 0,
            persist: 0,
            reopen: 0,
            ks_life: 0,
            check: 0,
            second_open: 0,
            burst: 0,
        }
    }
}

pub struct G<'a> {
    pub r: &'a mut Rng,
    pub next_val: u32,
    pub cfg: Cfg,
    /// model of which names exist (to keep programs mostly meaningful)
    pub exists: Vec<bool>,
    pub has_stale: Vec<bool>,
    pub open_views: Vec<u8>,
    pub open_iters: Vec<u8>,
    pub open_txs: Vec<u8>,
    /// keys written exactly once since creation / last weak remove, per ks (remove_weak domain)
    pub written_once: Vec<Vec<u8>>,
    pub write_count: Vec<Vec<u32>>,
    pub sizes: Vec<u32>,
    pub incompressible_pct: u64,
}

pub fn size_classes(r: &mut Rng, big: bool) -> Vec<u32> {
    let mut v = vec![1, 8, 8, 24, 24, 100];
    if r.chance(1, 2) {
        v.push(0);
    }
    if r.chance(1, 2) {
        v.extend([1000, 600]);
    }
    if r.chance(1, 3) {
        v.extend([4095, 4096, 4097]);
    }
    if big && r.chance(1, 3) {
        v.extend([9000, 20000]);
    }
    if big && r.chance(1, 8) {
        v.push(70000);
    }
    v
}

pub fn gen_ks_opts(r: &mut Rng) -> KsOpts {
    let max_memtable = *r.pick(&[0u64, 0, 1024, 1024, 4096, 256]);
    let blob = if r.chance(1, 3) {
        Some(BlobOpts {
            threshold: *r.pick(&[16u32, 64, 512]),
            file_target: *r.pick(&[64u64 << 20, 1 << 12, 1 << 16]),
            staleness: *r.pick(&[0.25f32, 0.01, 0.9]),
            age_cutoff: *r.pick(&[0.25f32, 1.0, 0.0]),
            lz4: r.chance(1, 2),
        })
    } else {
        None
    };
    // NOTE: FIFO is documented for insert-only, strictly monotonic key order only; it is
    // exercised by its own run class (gen_fifo_program), never under random overwrites
    let strategy = {
        Strategy::Leveled {
            l0: r.range(2, 4) as u8,
            target: *r.pick(&[64u64 << 20, 1 << 10, 1 << 12, 1 << 16]),
            ratios: if r.chance(1, 2) {
                vec![10.0]
            } else {
                vec![2.0, 4.0]
            },
        }
    };
    KsOpts {
        max_memtable,
        blob,
        strategy,
        manual_persist: false,
        extra: None,
    }
}

impl<'a> G<'a> {
    pub fn new(r: &'a mut Rng, n_names: usize, n_keys: usize, db_kind: DbKind, big_values: bool) -> Self {
        let names: Vec<String> = ["a", "b", "c", "d"][..n_names].iter().map(|s| s.to_string()).collect();
        let mut pool: Vec<&[u8]> = KEY_POOL.to_vec();
        let mut keys = vec![];
        for _ in 0..n_keys {
            let i = r.usize(pool.len());
            keys.push(pool.remove(i).to_vec());
        }
        keys.sort();
        let opts = (0..n_names).map(|_| gen_ks_opts(r)).collect();
        let sizes = size_classes(r, big_values);
        let cfg = Cfg {
            db_kind,
            journal_lz4: r.chance(1, 2),
            manual_persist: false,
            rotation_threshold: *r.pick(&[0u64, 0, 2048, 16384]),
            workers: 0,
            names,
            opts,
            filtered: vec![],
            keys,
            check_every: *r.pick(&[0u32, 1, 3, 7]),
            stickiness: *r.pick(&[0u8, 30, 50, 70, 90]),
            sched_seed: r.next(),
            starve_on_drop: 0,
        };
        let incompressible_pct = *r.pick(&[0u64, 20, 50]);
        Self {
            r,
            next_val: 1,
            exists: vec![false; n_names],
            has_stale: vec![false; n_names],
            open_views: vec![],
            open_iters: vec![],
            open_txs: vec![],
            written_once: vec![vec![]; n_names],
            write_count: vec![vec![0; n_keys]; n_names],
            cfg,
            sizes,
            incompressible_pct,
        }
    }

    pub fn val(&mut self) -> Val {
        let id = self.next_val;
        self.next_val += 1;
        let size = *self.r.pick(&self.sizes);
        Val {
            id,
            size,
            compressible: self.r.below(100) >= self.incompressible_pct,
        }
    }

    pub fn val_sized(&mut self, size: u32, compressible: bool) -> Val {
        let id = self.next_val;
        self.next_val += 1;
        Val { id, size, compressible }
    }

    pub fn key(&mut self) -> u8 {
        self.r.usize(self.cfg.keys.len()) as u8
    }

    pub fn live_ks(&mut self) -> Option<KsIdx> {
        let live: Vec<usize> = (0..self.exists.len()).filter(|i| self.exists[*i]).collect();
        if live.is_empty() {
            None
        } else {
            Some(*self.r.pick(&live) as u8)
        }
    }

    fn note_write(&mut self, ks: KsIdx, key: u8) {
        self.write_count[ks as usize][key as usize] += 1;
    }

    pub fn bnd(&mut self) -> Vec<u8> {
        if self.r.chance(3, 4) {
            let k = self.key();
            self.cfg.keys[k as usize].clone()
        } else {
            KEY_POOL[self.r.usize(KEY_POOL.len())].to_vec()
        }
    }

    pub fn range(&mut self) -> RangeSpec {
        match self.r.below(5) {
            0 => RangeSpec::All,
            1 | 2 => {
                let p = self.bnd();
                let cut = self.r.usize(p.len() + 1);
                RangeSpec::Prefix(p[..cut].to_vec())
            }
            _ => loop {
                let mk = |g: &mut Self| match g.r.below(3) {
                    0 => Bnd::Unb,
                    1 => Bnd::Inc(g.bnd()),
                    _ => Bnd::Exc(g.bnd()),
                };
                let r = RangeSpec::Range(mk(self), mk(self));
                if crate::model::range_well_formed(&r) {
                    break r;
                }
            },
        }
    }

    pub fn scan_mode(&mut self) -> ScanMode {
        match self.r.below(4) {
            0 | 1 => ScanMode::Fwd,
            2 => ScanMode::Rev,
            _ => {
                let n = self.r.range(1, 8) as usize;
                ScanMode::Ends((0..n).map(|_| self.r.chance(1, 2)).collect())
            }
        }
    }

    pub fn read_op(&mut self, ks: KsIdx, scan_weight: u32) -> ReadOp {
        let w = [3, 2, 2, scan_weight * 3, 1, 1, 1, 1];
        match self.r.weighted(&w) {
            0 => ReadOp::Get { ks, key: self.key() },
            1 => ReadOp::Contains { ks, key: self.key() },
            2 => ReadOp::SizeOf { ks, key: self.key() },
            3 => ReadOp::Scan {
                ks,
                range: self.range(),
                mode: self.scan_mode(),
            },
            4 => ReadOp::First { ks },
            5 => ReadOp::Last { ks },
            6 => ReadOp::Len { ks },
            _ => ReadOp::IsEmpty { ks },
        }
    }

    pub fn updfn(&mut self) -> UpdFn {
        match self.r.below(4) {
            0 => UpdFn::Set(self.val()),
            1 => UpdFn::Delete,
            2 => {
                let id = self.next_val;
                self.next_val += 1;
                UpdFn::Derive { id }
            }
            _ => UpdFn::Keep,
        }
    }

    pub fn tx_op(&mut self, ks: KsIdx, read_weight: u32) -> TxOp {
        let w = [read_weight * 2, 3, 2, 2, 1, 1, 1];
        match self.r.weighted(&w) {
            0 => TxOp::Read(self.read_op(ks, 1)),
            1 => TxOp::Insert { ks, key: self.key(), val: self.val() },
            2 => {
                let id = self.next_val;
                self.next_val += 1;
                TxOp::InsertDerived { ks, key: self.key(), id }
            }
            3 => TxOp::Remove { ks, key: self.key() },
            4 => TxOp::Take { ks, key: self.key() },
            5 => TxOp::FetchUpdate { ks, key: self.key(), f: self.updfn() },
            _ => TxOp::UpdateFetch { ks, key: self.key(), f: self.updfn() },
        }
    }

    pub fn batch(&mut self, max_items: usize, allow_dup_keys: bool) -> Op {
        let n = 1 + self.r.usize(max_items);
        let mut items: Vec<BItem> = vec![];
        for _ in 0..n {
            let Some(ks) = self.live_ks() else { break };
            let key = self.key();
            if !allow_dup_keys && items.iter().any(|i| i.ks == ks && i.key == key) {
                continue;
            }
            let kind = match self.r.below(5) {
                0 => BKind::Del,
                _ => BKind::Put(self.val()),
            };
            self.note_write(ks, key);
            items.push(BItem { ks, key, kind });
        }
        let dur = match self.r.below(6) {
            0 => Some(Dur::SyncAll),
            1 => Some(Dur::SyncData),
            2 => Some(Dur::Buffer),
            _ => None,
        };
        Op::Batch { items, dur }
    }

    /// A batch of 34-120 small items over all live keyspaces, interleaved, naming the same keys
    /// again and again (the last operation on a key wins; every item shares the batch's seqno)
    pub fn big_batch(&mut self) -> Op {
        let n = self.r.range(34, 120) as usize;
        let mut items: Vec<BItem> = vec![];
        for _ in 0..n {
            let Some(ks) = self.live_ks() else { break };
            let key = self.key();
            let kind = match self.r.below(5) {
                0 => BKind::Del,
                _ => {
                    let sz = *self.r.pick(&[0u32, 1, 8, 24]);
                    BKind::Put(self.val_sized(sz, true))
                }
            };
            self.note_write(ks, key);
            // weak removes need "written exactly once": not true any more for repeated keys
            self.note_write(ks, key);
            items.push(BItem { ks, key, kind });
        }
        Op::Batch { items, dur: None }
    }

    pub fn ingest(&mut self, ks: KsIdx) -> Op {
        let nk = self.cfg.keys.len();
        let mut items = vec![];
        for k in 0..nk {
            if self.r.chance(1, 2) {
                let v = if self.r.chance(1, 6) { None } else { Some(self.val()) };
                self.note_write(ks, k as u8);
                items.push((k as u8, v));
            }
        }
        if items.is_empty() {
            items.push((0, Some(self.val())));
        }
        Op::Ingest { ks, items }
    }

    pub fn maintenance(&mut self) -> Op {
        let ks = self.live_ks().unwrap_or(0);
        match self.r.below(10) {
            0 | 1 | 2 => Op::Rotate { ks },
            3 | 4 | 5 => Op::WorkerStep,
            6 => Op::Drain,
            7 => Op::MajorCompact { ks },
            8 => Op::Gc,
            _ => Op::Quiesce,
        }
    }

    /// One random op according to `mix` (may return several ops, e.g. a whole transaction)
    pub fn op(&mut self, mix: &Mix) -> Vec<Op> {
        let w = [
            mix.insert, mix.remove, mix.remove_weak, mix.batch, mix.clear, mix.ingest, mix.read, mix.scan,
            mix.view, mix.iter, mix.tx, mix.txks, mix.maint, mix.persist, mix.reopen, mix.ks_life,
            mix.check, mix.second_open, mix.burst,
        ];
        let Some(ks) = self.live_ks() else {
            // nothing exists: create something
            let ks = self.r.usize(self.exists.len());
            self.exists[ks] = true;
            return vec![Op::CreateKs { ks: ks as u8 }];
        };
        match self.r.weighted(&w) {
            0 => {
                let key = self.key();
                self.note_write(ks, key);
                vec![Op::Insert { ks, key, val: self.val() }]
            }
            1 => {
                let key = self.key();
                self.note_write(ks, key);
                vec![Op::Remove { ks, key }]
            }
            2 => {
                // documented precondition: key written exactly once since creation / last weak remove
                let cands: Vec<u8> = (0..self.cfg.keys.len() as u8)
                    .filter(|k| self.write_count[ks as usize][*k as usize] == 1)
                    .collect();
                if cands.is_empty() {
                    return vec![];
                }
                let key = *self.r.pick(&cands);
                self.write_count[ks as usize][key as usize] = 0;
                vec![Op::RemoveWeak { ks, key }]
            }
            3 => {
                if self.r.chance(1, 8) {
                    vec![self.big_batch()]
                } else {
                    vec![self.batch(5, false)]
                }
            }
            4 => {
                for c in &mut self.write_count[ks as usize] {
                    *c = 2; // weak removes no longer allowed on anything written before
                }
                vec![Op::Clear { ks }]
            }
            5 => vec![self.ingest(ks)],
            6 => vec![Op::Read(self.read_op(ks, 0))],
            7 => vec![Op::Read(ReadOp::Scan { ks, range: self.range(), mode: self.scan_mode() })],
            8 => self.view_op(ks),
            9 => self.iter_op(ks),
            10 => self.tx_whole(ks),
            11 => {
                let key = self.key();
                self.note_write(ks, key);
                vec![match self.r.below(5) {
                    0 => Op::TxKsInsert { ks, key, val: self.val() },
                    1 => Op::TxKsRemove { ks, key },
                    2 => Op::TxKsTake { ks, key },
                    3 => Op::TxKsFetchUpdate { ks, key, f: self.updfn() },
                    _ => Op::TxKsUpdateFetch { ks, key, f: self.updfn() },
                }]
            }
            12 => vec![self.maintenance()],
            13 => vec![Op::Persist {
                mode: match self.r.below(3) {
                    0 => Dur::Buffer,
                    1 => Dur::SyncData,
                    _ => Dur::SyncAll,
                },
            }],
            14 => {
                self.open_views.clear();
                self.open_iters.clear();
                self.open_txs.clear();
                for s in &mut self.has_stale {
                    *s = false;
                }
                vec![Op::Reopen]
            }
            15 => self.ks_life(),
            16 => vec![Op::Check],
            17 => vec![Op::SecondOpen],
            _ => vec![Op::ViewBurst { n: *self.r.pick(&[1u32, 10, 10_000, 10_001]) }],
        }
    }

    pub fn ks_life(&mut self) -> Vec<Op> {
        let n = self.exists.len();
        let i = self.r.usize(n);
        if self.exists[i] {
            match self.r.below(3) {
                0 => {
                    self.exists[i] = false;
                    self.has_stale[i] = true;
                    for c in &mut self.write_count[i] {
                        *c = 0;
                    }
                    vec![Op::DeleteKs { ks: i as u8 }]
                }
                1 => vec![Op::CreateKs { ks: i as u8 }], // open existing
                _ => vec![Op::OpenKsWith { ks: i as u8, opts: gen_ks_opts(self.r) }],
            }
        } else if self.has_stale[i] && self.r.chance(1, 2) {
            match self.r.below(3) {
                0 => vec![Op::StaleInsert { ks: i as u8, key: self.key(), val: self.val() }],
                1 => vec![Op::StaleRemove { ks: i as u8, key: self.key() }],
                _ => {
                    self.has_stale[i] = false;
                    vec![Op::DropHandle { ks: i as u8 }]
                }
            }
        } else {
            self.exists[i] = true;
            vec![Op::CreateKs { ks: i as u8 }]
        }
    }

    pub fn view_op(&mut self, ks: KsIdx) -> Vec<Op> {
        if self.open_views.is_empty() || (self.open_views.len() < 4 && self.r.chance(1, 3)) {
            let slot = (0..8u8).find(|s| !self.open_views.contains(s)).unwrap();
            self.open_views.push(slot);
            // several views at the very same instant, sometimes
            let mut ops = vec![Op::ViewOpen {
                slot,
                kind: if self.r.chance(1, 2) { ViewKind::Snapshot } else { ViewKind::ReadTx },
            }];
            if self.open_views.len() < 4 && self.r.chance(1, 3) {
                let s2 = (0..8u8).find(|s| !self.open_views.contains(s)).unwrap();
                self.open_views.push(s2);
                ops.push(if self.r.chance(1, 2) {
                    Op::ViewOpen { slot: s2, kind: ViewKind::Snapshot }
                } else {
                    Op::ViewClone { from: slot, to: s2 }
                });
            }
            ops
        } else {
            let slot = *self.r.pick(&self.open_views);
            match self.r.below(6) {
                0 => {
                    self.open_views.retain(|s| *s != slot);
                    vec![Op::ViewDrop { slot }]
                }
                _ => vec![Op::ViewRead { slot, op: self.read_op(ks, 1) }],
            }
        }
    }

    pub fn iter_op(&mut self, ks: KsIdx) -> Vec<Op> {
        if self.open_iters.is_empty() || (self.open_iters.len() < 3 && self.r.chance(1, 3)) {
            let slot = (0..8u8).find(|s| !self.open_iters.contains(s)).unwrap();
            self.open_iters.push(slot);
            let src = if !self.open_txs.is_empty() && self.r.chance(1, 3) {
                // an iterator of a write transaction: frozen like any other, also against the
                // transaction's own later writes
                IterSrc::Tx(*self.r.pick(&self.open_txs))
            } else if !self.open_views.is_empty() && self.r.chance(1, 3) {
                IterSrc::View(*self.r.pick(&self.open_views))
            } else {
                IterSrc::Keyspace
            };
            vec![Op::IterOpen { slot, src, ks, range: self.range() }]
        } else {
            let slot = *self.r.pick(&self.open_iters);
            match self.r.below(5) {
                0 => {
                    self.open_iters.retain(|s| *s != slot);
                    vec![Op::IterDrop { slot }]
                }
                _ => vec![Op::IterStep {
                    slot,
                    n: self.r.range(1, 3) as u8,
                    back: self.r.chance(1, 3),
                }],
            }
        }
    }

    /// A whole (non-interleaved) transaction
    pub fn tx_whole(&mut self, ks: KsIdx) -> Vec<Op> {
        if self.cfg.db_kind == DbKind::Plain || !self.open_txs.is_empty() {
            return vec![];
        }
        let slot = 0u8;
        let mut ops = vec![Op::TxBegin {
            slot,
            dur: match self.r.below(5) {
                0 => Some(Dur::SyncAll),
                1 => Some(Dur::Buffer),
                _ => None,
            },
        }];
        let n = self.r.range(1, 6);
        let mut tx_iters: Vec<u8> = vec![];
        for _ in 0..n {
            let k = if self.r.chance(1, 4) { self.live_ks().unwrap_or(ks) } else { ks };
            let top = self.tx_op(k, 2);
            if let TxOp::Insert { ks, key, .. }
            | TxOp::InsertDerived { ks, key, .. }
            | TxOp::Remove { ks, key }
            | TxOp::Take { ks, key }
            | TxOp::FetchUpdate { ks, key, .. }
            | TxOp::UpdateFetch { ks, key, .. } = &top
            {
                self.write_count[*ks as usize][*key as usize] += 2;
            }
            ops.push(Op::TxOp { slot, op: top });
            // an iterator of the transaction itself, consumed while the transaction goes on
            // writing (it stays frozen at its creation, also against the transaction's own writes)
            if self.r.chance(1, 4) {
                let mine: Vec<u8> = tx_iters.clone();
                if mine.is_empty() && self.open_iters.len() < 6 {
                    let islot = (0..8u8).find(|s| !self.open_iters.contains(s)).unwrap();
                    self.open_iters.push(islot);
                    tx_iters.push(islot);
                    let range = if self.r.chance(1, 2) { RangeSpec::All } else { self.range() };
                    ops.push(Op::IterOpen { slot: islot, src: IterSrc::Tx(slot), ks: k, range });
                } else if let Some(islot) = mine.first() {
                    ops.push(Op::IterStep { slot: *islot, n: self.r.range(1, 2) as u8, back: self.r.chance(1, 3) });
                }
            }
        }
        ops.push(Op::TxEnd {
            slot,
            end: match self.r.below(6) {
                0 => TxEnd::Rollback,
                1 => TxEnd::Drop,
                _ => TxEnd::Commit,
            },
        });
        ops
    }

    /// Emits CreateKs for `n` names at the start
    pub fn create_initial(&mut self, n: usize) -> Vec<Op> {
        let mut ops = vec![];
        for i in 0..n.min(self.exists.len()) {
            self.exists[i] = true;
            ops.push(Op::CreateKs { ks: i as u8 });
        }
        ops
    }

    /// A prelude that leaves a dozen journal files behind: keyspace `busy` is written past the
    /// (scaled) rotation threshold and flushed over and over while keyspace `pin` gets a small
    /// write every few rounds and is never flushed, so every sealed journal stays registered.
    /// Journal ids pass 9 -> 10 (two digits next to one digit).
    pub fn many_journals(&mut self, busy: KsIdx, pin: KsIdx) -> Vec<Op> {
        self.cfg.rotation_threshold = 512;
        self.cfg.journal_lz4 = false;
        let mut ops = vec![];
        let rounds = self.r.range(11, 13);
        for i in 0..rounds {
            let v = self.val_sized(700, false);
            let key = self.key();
            ops.push(Op::Insert { ks: busy, key, val: v });
            if i % 3 == 0 {
                let v = self.val_sized(8, true);
                let key = self.key();
                ops.push(Op::Insert { ks: pin, key, val: v });
            }
            ops.push(Op::Rotate { ks: busy });
            ops.push(Op::WorkerStep);
        }
        ops
    }

    /// Insert-only, strictly increasing keys (the documented FIFO domain), with reads and
    /// maintenance in between
    pub fn fifo_program(&mut self, ks: KsIdx, dens: u32) -> Vec<Op> {
        let mut ops = vec![];
        for key in 0..self.cfg.keys.len() as u8 {
            ops.push(Op::Insert { ks, key, val: self.val() });
            for _ in 0..3 {
                match self.r.weighted(&[4, dens, 2]) {
                    0 => ops.push(Op::Read(self.read_op(ks, 1))),
                    1 => ops.push(self.maintenance()),
                    _ => {}
                }
            }
        }
        ops
    }

    pub fn program(&mut self, n_ops: usize, mix: &Mix) -> Vec<Op> {
        let mut ops = vec![];
        let mut guard = 0;
        while ops.len() < n_ops && guard < n_ops * 20 {
            guard += 1;
            ops.extend(self.op(mix));
        }
        ops
    }
}
