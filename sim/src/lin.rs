//! Linearizability checker for recorded concurrent histories (C14, C06, C05-THR).
//! Operations are atomic multi-key writes and multi-key reads (a snapshot observation is one
//! read that takes effect at one instant between the invocation and the return of the
//! snapshot's creation). Search = Wing & Gong with memoisation on (done set, state).

use std::collections::{BTreeMap, HashSet};

pub type Cell = (u8, Vec<u8>);
pub type Store = BTreeMap<Cell, Vec<u8>>;

#[derive(Clone, Debug)]
pub enum LOp {
    /// atomic write of several cells (None = delete)
    Write(Vec<(Cell, Option<Vec<u8>>)>),
    /// remove everything of a keyspace
    Clear(u8),
    /// observed values of several cells at one instant
    Read(Vec<(Cell, Option<Vec<u8>>)>),
    /// observed full content of a keyspace at one instant
    ReadAll(u8, Vec<(Vec<u8>, Vec<u8>)>),
    /// observed content of a key range of a keyspace (cells within [lo,hi] as listed)
    ReadRange(u8, crate::case::RangeSpec, Vec<(Vec<u8>, Vec<u8>)>),
    /// observed presence of a cell
    Exists(Cell, bool),
    /// observed value size of a cell
    Size(Cell, Option<u32>),
    /// several observations made at the same instant (one snapshot)
    All(Vec<LOp>),
}

#[derive(Clone, Debug)]
pub struct LEvent {
    pub thread: usize,
    pub invoke: u64,
    pub ret: u64,
    pub op: LOp,
    pub label: String,
    /// scheduler step range during which the observation's instant was taken (views, scans)
    pub steps: Option<(u64, u64)>,
}

fn apply(st: &mut Store, op: &LOp) -> bool {
    match op {
        LOp::Write(ws) => {
            for (c, v) in ws {
                match v {
                    Some(v) => {
                        st.insert(c.clone(), v.clone());
                    }
                    None => {
                        st.remove(c);
                    }
                }
            }
            true
        }
        LOp::Clear(ks) => {
            st.retain(|(k, _), _| k != ks);
            true
        }
        LOp::Read(rs) => rs.iter().all(|(c, v)| st.get(c) == v.as_ref()),
        LOp::ReadAll(ks, items) => {
            let cur: Vec<(&Vec<u8>, &Vec<u8>)> = st.iter().filter(|((k, _), _)| k == ks).map(|((_, key), v)| (key, v)).collect();
            cur.len() == items.len() && cur.iter().zip(items.iter()).all(|((k, v), (ik, iv))| *k == ik && *v == iv)
        }
        LOp::Exists(c, e) => st.contains_key(c) == *e,
        LOp::Size(c, sz) => st.get(c).map(|v| v.len() as u32) == *sz,
        LOp::All(ops) => {
            let mut tmp = st.clone();
            ops.iter().all(|o| apply(&mut tmp, o))
        }
        LOp::ReadRange(ks, range, items) => {
            let cur: Vec<(&Vec<u8>, &Vec<u8>)> = st
                .iter()
                .filter(|((k, key), _)| k == ks && crate::model::in_range(key, range))
                .map(|((_, key), v)| (key, v))
                .collect();
            cur.len() == items.len() && cur.iter().zip(items.iter()).all(|((k, v), (ik, iv))| *k == ik && *v == iv)
        }
    }
}

fn digest(st: &Store) -> u64 {
    let mut h = 3u64;
    for ((ks, k), v) in st {
        h = crate::rng::mix(h ^ u64::from(*ks));
        h = crate::rng::hash_bytes(h, k);
        h = crate::rng::hash_bytes(h, v);
    }
    h
}

pub struct LinResult {
    pub ok: bool,
    pub explored: u64,
    pub explanation: String,
    pub skipped: bool,
}

pub fn check(initial: &Store, events: &[LEvent], budget: u64) -> LinResult {
    let n = events.len();
    if n > 60 {
        return LinResult { ok: true, explored: 0, explanation: "history too long, skipped".into(), skipped: true };
    }
    let mut explored = 0u64;
    let mut dead: HashSet<(u64, u64)> = HashSet::new();
    let mut deepest = 0usize;
    let mut stuck_at = String::new();

    #[allow(clippy::too_many_arguments)]
    fn rec(
        done: u64,
        st: &Store,
        events: &[LEvent],
        explored: &mut u64,
        dead: &mut HashSet<(u64, u64)>,
        budget: u64,
        deepest: &mut usize,
        stuck_at: &mut String,
    ) -> Option<bool> {
        let n = events.len();
        if done.count_ones() as usize == n {
            return Some(true);
        }
        if *explored > budget {
            return None;
        }
        let key = (done, digest(st));
        if dead.contains(&key) {
            return Some(false);
        }
        // minimal operations: invoked before every pending operation's return
        let min_ret = (0..n).filter(|i| done & (1 << i) == 0).map(|i| events[i].ret).min().unwrap();
        let mut blocked: Vec<String> = vec![];
        for i in 0..n {
            if done & (1 << i) != 0 || events[i].invoke > min_ret {
                continue;
            }
            *explored += 1;
            let mut next = st.clone();
            if apply(&mut next, &events[i].op) {
                match rec(done | (1 << i), &next, events, explored, dead, budget, deepest, stuck_at) {
                    Some(true) => return Some(true),
                    None => return None,
                    Some(false) => {}
                }
            } else {
                blocked.push(events[i].label.clone());
            }
        }
        let depth = done.count_ones() as usize;
        if depth >= *deepest {
            *deepest = depth;
            *stuck_at = format!("after linearizing {depth} of {n} operations no remaining minimal operation fits; reads that cannot be placed: {blocked:?}");
        }
        dead.insert(key);
        Some(false)
    }

    match rec(0, initial, events, &mut explored, &mut dead, budget, &mut deepest, &mut stuck_at) {
        Some(true) => LinResult { ok: true, explored, explanation: String::new(), skipped: false },
        Some(false) => LinResult { ok: false, explored, explanation: stuck_at, skipped: false },
        None => LinResult { ok: true, explored, explanation: "search budget exhausted, undecided".into(), skipped: true },
    }
}
