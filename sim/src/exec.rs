//! Executes explicit programs against the real fjall code and the reference model side by side.
//! Used directly by the SEQ engine and, op by op, by THR client threads.

use crate::case::*;
use crate::inst::Instance;
use crate::model::*;
use fjall::{Guard, Keyspace, PersistMode, Readable, Snapshot};
use std::collections::{BTreeMap, VecDeque};
use std::ops::Bound;
use std::path::PathBuf;

#[derive(Clone, Debug)]
pub struct Violation {
    pub clause: String,
    pub detail: String,
    pub op_index: Option<usize>,
}

impl Violation {
    pub fn new(clause: &str, detail: String) -> Self {
        Self {
            clause: clause.to_string(),
            detail,
            op_index: None,
        }
    }
}

#[derive(Default, Clone, Debug)]
pub struct Stats {
    pub c: BTreeMap<String, u64>,
}

impl Stats {
    pub fn inc(&mut self, k: &str) {
        *self.c.entry(k.to_string()).or_insert(0) += 1;
    }
    pub fn add(&mut self, k: &str, n: u64) {
        *self.c.entry(k.to_string()).or_insert(0) += n;
    }
    pub fn max(&mut self, k: &str, n: u64) {
        let e = self.c.entry(k.to_string()).or_insert(0);
        *e = (*e).max(n);
    }
    pub fn merge(&mut self, o: &Stats) {
        for (k, v) in &o.c {
            *self.c.entry(k.clone()).or_insert(0) += v;
        }
    }
}

pub fn dur(d: &Dur) -> PersistMode {
    match d {
        Dur::Buffer => PersistMode::Buffer,
        Dur::SyncData => PersistMode::SyncData,
        Dur::SyncAll => PersistMode::SyncAll,
    }
}

fn e2s<E: std::fmt::Debug>(e: E) -> String {
    format!("{e:?}")
}

fn kv(g: Guard) -> Result<(Vec<u8>, Vec<u8>), String> {
    g.into_inner().map(|(k, v)| (k.to_vec(), v.to_vec())).map_err(e2s)
}

pub fn drive_scan(
    mut it: impl DoubleEndedIterator<Item = Guard>,
    mode: &ScanMode,
) -> ReadResult {
    let mut out = vec![];
    let mut i = 0usize;
    loop {
        let back = match mode {
            ScanMode::Fwd => false,
            ScanMode::Rev => true,
            ScanMode::Ends(p) => p.get(i).copied().unwrap_or(false),
        };
        i += 1;
        let g = if back { it.next_back() } else { it.next() };
        match g {
            None => break,
            Some(g) => match kv(g) {
                Ok(x) => out.push(x),
                Err(e) => return ReadResult::Err(e),
            },
        }
        if out.len() > 100_000 {
            return ReadResult::Err("scan does not terminate".into());
        }
    }
    ReadResult::Items(out)
}

pub fn bounds(lo: &Bnd, hi: &Bnd) -> (Bound<Vec<u8>>, Bound<Vec<u8>>) {
    (to_bound(lo), to_bound(hi))
}

/// Reads through the Keyspace API itself
pub fn read_keyspace(k: &Keyspace, keys: &[Vec<u8>], op: &ReadOp) -> ReadResult {
    match op {
        ReadOp::Get { key, .. } => match k.get(&keys[*key as usize]) {
            Ok(v) => ReadResult::Val(v.map(|v| v.to_vec())),
            Err(e) => ReadResult::Err(e2s(e)),
        },
        ReadOp::Contains { key, .. } => match k.contains_key(&keys[*key as usize]) {
            Ok(v) => ReadResult::Bool(v),
            Err(e) => ReadResult::Err(e2s(e)),
        },
        ReadOp::SizeOf { key, .. } => match k.size_of(&keys[*key as usize]) {
            Ok(v) => ReadResult::Size(v),
            Err(e) => ReadResult::Err(e2s(e)),
        },
        ReadOp::Scan { range, mode, .. } => match range {
            RangeSpec::All => drive_scan(k.iter(), mode),
            RangeSpec::Range(lo, hi) => drive_scan(k.range::<Vec<u8>, _>(bounds(lo, hi)), mode),
            RangeSpec::Prefix(p) => drive_scan(k.prefix(p), mode),
        },
        ReadOp::First { .. } => match k.first_key_value().map(kv).transpose() {
            Ok(v) => ReadResult::Kv(v),
            Err(e) => ReadResult::Err(e),
        },
        ReadOp::Last { .. } => match k.last_key_value().map(kv).transpose() {
            Ok(v) => ReadResult::Kv(v),
            Err(e) => ReadResult::Err(e),
        },
        ReadOp::Len { .. } => match k.len() {
            Ok(v) => ReadResult::Count(v),
            Err(e) => ReadResult::Err(e2s(e)),
        },
        ReadOp::IsEmpty { .. } => match k.is_empty() {
            Ok(v) => ReadResult::Bool(v),
            Err(e) => ReadResult::Err(e2s(e)),
        },
    }
}

/// Reads through any `Readable` (snapshot, read tx, write tx)
pub fn read_readable<R: Readable>(r: &R, k: &Keyspace, keys: &[Vec<u8>], op: &ReadOp) -> ReadResult {
    match op {
        ReadOp::Get { key, .. } => match r.get(k, &keys[*key as usize]) {
            Ok(v) => ReadResult::Val(v.map(|v| v.to_vec())),
            Err(e) => ReadResult::Err(e2s(e)),
        },
        ReadOp::Contains { key, .. } => match r.contains_key(k, &keys[*key as usize]) {
            Ok(v) => ReadResult::Bool(v),
            Err(e) => ReadResult::Err(e2s(e)),
        },
        ReadOp::SizeOf { key, .. } => match r.size_of(k, &keys[*key as usize]) {
            Ok(v) => ReadResult::Size(v),
            Err(e) => ReadResult::Err(e2s(e)),
        },
        ReadOp::Scan { range, mode, .. } => match range {
            RangeSpec::All => drive_scan(r.iter(k), mode),
            RangeSpec::Range(lo, hi) => drive_scan(r.range::<Vec<u8>, _>(k, bounds(lo, hi)), mode),
            RangeSpec::Prefix(p) => drive_scan(r.prefix(k, p), mode),
        },
        ReadOp::First { .. } => match r.first_key_value(k).map(kv).transpose() {
            Ok(v) => ReadResult::Kv(v),
            Err(e) => ReadResult::Err(e),
        },
        ReadOp::Last { .. } => match r.last_key_value(k).map(kv).transpose() {
            Ok(v) => ReadResult::Kv(v),
            Err(e) => ReadResult::Err(e),
        },
        ReadOp::Len { .. } => match r.len(k) {
            Ok(v) => ReadResult::Count(v),
            Err(e) => ReadResult::Err(e2s(e)),
        },
        ReadOp::IsEmpty { .. } => match r.is_empty(k) {
            Ok(v) => ReadResult::Bool(v),
            Err(e) => ReadResult::Err(e2s(e)),
        },
    }
}

pub enum TxHandle {
    Sw(fjall::SingleWriterWriteTx<'static>, #[allow(dead_code)] Box<fjall::SingleWriterTxDatabase>),
    Opt(fjall::OptimisticWriteTx),
}

pub struct TxSlot {
    pub h: Option<TxHandle>,
    pub m: TxModel,
    pub rec: usize,
}

/// What a transaction did, for the serialisability checker (C07)
#[derive(Clone, Debug)]
pub struct TxRecord {
    pub begin: usize,
    pub end: usize,
    pub ops: Vec<TxOp>,
    pub results: Vec<ReadResult>,
    /// Some(true) committed, Some(false) conflict / rolled back, None still open
    pub committed: Option<bool>,
    pub conflict: bool,
}

pub struct ViewSlot {
    pub snap: Snapshot,
    pub frozen: State,
}

pub struct IterSlot {
    pub it: fjall::Iter,
    pub expected: VecDeque<(Vec<u8>, Vec<u8>)>,
}

#[derive(Default, Debug)]
pub struct StepInfo {
    /// a write op was acknowledged (history advanced)
    pub acked: bool,
    /// a write op returned an error (only reported when `tolerate_errors`)
    pub failed: Option<String>,
    /// the state the failed op would have produced had it succeeded
    pub failed_state: Option<State>,
}

pub struct Exec<'a> {
    pub cfg: &'a Cfg,
    pub dir: PathBuf,
    pub inst: Option<Instance>,
    pub model: State,
    /// states after each acknowledged write op; history[0] is the initial (empty) state
    pub history: Vec<State>,
    pub stats: Stats,
    pub views: BTreeMap<u8, ViewSlot>,
    pub iters: BTreeMap<u8, IterSlot>,
    pub txs: BTreeMap<u8, TxSlot>,
    pub txlog: Vec<TxRecord>,
    pub step_no: usize,
    /// when set, failing writes are reported instead of being violations (fault classes)
    pub tolerate_errors: bool,
    /// option rows recorded when a keyspace was created (C16)
    pub created_rows: BTreeMap<KsIdx, Vec<(Vec<u8>, Vec<u8>)>>,
    /// options to pass when re-opening handles after a reopen (C16: deliberately different)
    pub reopen_opts: Option<KsOpts>,
    /// filter model (C18): per (ks,key): true once observed in filtered form
    pub filter_sticky: BTreeMap<(KsIdx, Vec<u8>), Option<Vec<u8>>>,
    /// state when the first transaction / helper op started (C07)
    pub tx_initial: Option<State>,
    /// internal ids of deleted keyspace incarnations (C12)
    pub deleted_ids: Vec<u64>,
    /// seqno counter observed right before the last close (C11)
    pub seqno_before_close: Option<u64>,
    /// keys written since the last reopen (filter / replay diagnostics)
    pub written_since_reopen: std::collections::BTreeSet<(KsIdx, Vec<u8>)>,
    pub reopened: bool,
    /// per key: the writes that touched it, in order
    pub key_hist: BTreeMap<(KsIdx, Vec<u8>), Vec<KeyEvent>>,
    /// steps at which background work / compaction ran
    pub maint_steps: Vec<usize>,
    /// C16: check option-dependent behaviour (rotation request threshold, kv separation)
    pub check_option_behaviour: bool,
}

#[derive(Clone, Debug)]
pub struct KeyEvent {
    pub step: usize,
    pub value: Option<Vec<u8>>,
    pub journaled: bool,
    pub ingested: bool,
}

macro_rules! viol {
    ($clause:expr, $($arg:tt)*) => {
        return Err(Violation::new($clause, format!($($arg)*)))
    };
}

impl<'a> Exec<'a> {
    pub fn new(cfg: &'a Cfg, dir: PathBuf) -> Self {
        Self {
            cfg,
            dir,
            inst: None,
            model: State::default(),
            history: vec![State::default()],
            stats: Stats::default(),
            views: BTreeMap::new(),
            iters: BTreeMap::new(),
            txs: BTreeMap::new(),
            txlog: vec![],
            step_no: 0,
            tolerate_errors: false,
            created_rows: BTreeMap::new(),
            reopen_opts: None,
            filter_sticky: BTreeMap::new(),
            tx_initial: None,
            deleted_ids: vec![],
            seqno_before_close: None,
            written_since_reopen: Default::default(),
            reopened: false,
            key_hist: BTreeMap::new(),
            maint_steps: vec![],
            check_option_behaviour: false,
        }
    }

    pub fn keys(&self) -> &'a [Vec<u8>] {
        &self.cfg.keys
    }

    pub fn open(&mut self) -> Result<(), Violation> {
        match Instance::open(&self.dir, self.cfg) {
            Ok(i) => {
                crate::hooks::set_seq_db(Some(i.db.clone()));
                self.inst = Some(i);
                Ok(())
            }
            Err(e) => viol!("open-failed", "opening the database failed: {e}"),
        }
    }

    /// Drops every handle (views, iterators, transactions, keyspaces, database)
    pub fn close(&mut self) {
        self.iters.clear();
        self.views.clear();
        for (_, t) in std::mem::take(&mut self.txs) {
            if let Some(r) = self.txlog.get_mut(t.rec) {
                if r.committed.is_none() {
                    r.committed = Some(false);
                }
            }
            drop(t);
        }
        crate::hooks::set_seq_db(None);
        if let Some(i) = &self.inst {
            self.seqno_before_close = Some(i.db.seqno());
        }
        self.inst = None;
    }

    fn commit_history(&mut self) {
        // per-key write history (diagnostic tags of recorded findings): writes that did not go
        // through `reset_sticky` - transaction commits, the transactional keyspace helpers - are
        // derived from what changed in the model
        if let Some(prev) = self.history.last() {
            let step = self.step_no;
            let mut events: Vec<((KsIdx, Vec<u8>), Option<Vec<u8>>)> = vec![];
            for (ks, cur) in &self.model.ks {
                let old = prev.ks.get(ks).filter(|o| o.inc == cur.inc);
                let empty = Map::new();
                let om = old.map_or(&empty, |o| &o.map);
                for (k, v) in &cur.map {
                    if om.get(k) != Some(v) {
                        events.push(((*ks, k.clone()), Some(v.clone())));
                    }
                }
                for k in om.keys() {
                    if !cur.map.contains_key(k) {
                        events.push(((*ks, k.clone()), None));
                    }
                }
            }
            for (cell, value) in events {
                let h = self.key_hist.entry(cell.clone()).or_default();
                if h.last().is_some_and(|e| e.step == step) {
                    continue;
                }
                self.written_since_reopen.insert(cell);
                h.push(KeyEvent { step, value, journaled: true, ingested: false });
            }
        }
        self.history.push(self.model.clone());
    }

    pub fn acked(&self) -> usize {
        self.history.len() - 1
    }

    fn is_filtered(&self, ks: KsIdx) -> bool {
        self.cfg
            .filtered
            .iter()
            .any(|n| n == &self.cfg.names[ks as usize])
    }

    /// Compares a real read result with the model's, honouring the C18 filter model
    fn compare(&mut self, clause: &str, what: &str, ks: KsIdx, real: &ReadResult, want: &ReadResult, r: &ReadOp) -> Result<(), Violation> {
        if real == want {
            return Ok(());
        }
        if self.is_filtered(ks) {
            let keys = self.keys();
            if self.allowed_maps(ks).iter().any(|m| &model_read(m, keys, r) == real) {
                return Ok(());
            }
            viol!(
                "filter-model",
                "{what}: real {} is not explained by the last written values {} under any mix of original/filtered forms",
                real.brief(),
                want.brief()
            )
        }
        viol!(
            clause,
            "{what}: real {} but reference model says {}",
            real.brief(),
            want.brief()
        )
    }

    /// C18: every content a filtered keyspace may legitimately show right now: each key with a
    /// remove/replace verdict is in its original or its filtered form; keys already observed
    /// filtered (and not rewritten since) only in the filtered form.
    fn allowed_maps(&self, ks: KsIdx) -> Vec<Map> {
        let Some(base) = self.model.map(ks) else { return vec![] };
        let mut maps = vec![base.clone()];
        for (k, v) in base {
            let verdict = k.first().copied().unwrap_or(0) % 3;
            if verdict == 0 {
                continue;
            }
            let filtered: Option<Vec<u8>> = if verdict == 1 {
                None
            } else if v.starts_with(crate::inst::REPLACED_PREFIX) {
                Some(v.clone())
            } else {
                Some(crate::inst::filtered_value(v))
            };
            let sticky = self.filter_sticky.contains_key(&(ks, k.clone()));
            let mut next = vec![];
            for m in &maps {
                if !sticky {
                    next.push(m.clone());
                }
                let mut f = m.clone();
                match &filtered {
                    Some(fv) => {
                        f.insert(k.clone(), fv.clone());
                    }
                    None => {
                        f.remove(k);
                    }
                }
                if sticky || &f != m {
                    next.push(f);
                }
            }
            maps = next;
            if maps.len() > 4096 {
                break;
            }
        }
        maps
    }

    pub fn step(&mut self, i: usize, op: &Op) -> Result<StepInfo, Violation> {
        self.step_no = i;
        let r = self.step_inner(op).map_err(|mut v| {
            v.op_index = Some(i);
            v
        })?;
        if self.cfg.check_every > 0 && (i + 1) % self.cfg.check_every as usize == 0 {
            self.check_all().map_err(|mut v| {
                v.op_index = Some(i);
                v
            })?;
        }
        Ok(r)
    }

    fn write_result(&mut self, op: &Op, res: Result<(), String>) -> Result<StepInfo, Violation> {
        match res {
            Ok(()) => {
                let keys = self.keys();
                apply_write(&mut self.model, keys, op);
                self.reset_sticky(op);
                self.commit_history();
                Ok(StepInfo {
                    acked: true,
                    failed: None, failed_state: None })
            }
            Err(e) => {
                if self.tolerate_errors {
                    let mut would = self.model.clone();
                    apply_write(&mut would, self.keys(), op);
                    Ok(StepInfo {
                        acked: false,
                        failed: Some(e),
                        failed_state: Some(would),
                    })
                } else {
                    viol!("unexpected-error", "write op {op:?} failed without any injected fault: {e}")
                }
            }
        }
    }

    fn reset_sticky(&mut self, op: &Op) {
        let keys = self.keys();
        let step = self.step_no;
        let mut touch = |me: &mut Self, ks: KsIdx, key: &Vec<u8>, value: Option<Vec<u8>>, ingested: bool| {
            me.written_since_reopen.insert((ks, key.clone()));
            me.key_hist.entry((ks, key.clone())).or_default().push(KeyEvent { step, value, journaled: !ingested, ingested });
        };
        match op {
            Op::Insert { ks, key, val } => touch(self, *ks, &keys[*key as usize], Some(val.bytes()), false),
            Op::Remove { ks, key } | Op::RemoveWeak { ks, key } => touch(self, *ks, &keys[*key as usize], None, false),
            Op::Batch { items, .. } => {
                for it in items {
                    let v = match &it.kind {
                        BKind::Put(v) => Some(v.bytes()),
                        _ => None,
                    };
                    touch(self, it.ks, &keys[it.key as usize], v, false);
                }
            }
            Op::Ingest { ks, items } => {
                for (k, v) in items {
                    touch(self, *ks, &keys[*k as usize], v.as_ref().map(Val::bytes), true);
                }
            }
            Op::Clear { ks } => {
                let all: Vec<Vec<u8>> = keys.to_vec();
                for k in all {
                    touch(self, *ks, &k, None, false);
                }
            }
            _ => {}
        }
        match op {
            Op::Insert { ks, key, .. } | Op::Remove { ks, key } => {
                self.filter_sticky.remove(&(*ks, keys[*key as usize].clone()));
            }
            Op::Batch { items, .. } => {
                for it in items {
                    self.filter_sticky
                        .remove(&(it.ks, keys[it.key as usize].clone()));
                }
            }
            Op::Clear { ks } => {
                self.filter_sticky.retain(|(k, _), _| k != ks);
            }
            Op::Ingest { ks, items } => {
                for (k, _) in items {
                    self.filter_sticky.remove(&(*ks, keys[*k as usize].clone()));
                }
            }
            _ => {}
        }
    }

    #[allow(clippy::too_many_lines)]
    fn step_inner(&mut self, op: &Op) -> Result<StepInfo, Violation> {
        let keys = self.keys();
        let cfg = self.cfg;
        if self.inst.is_none() {
            return Ok(StepInfo::default());
        }
        macro_rules! inst {
            () => {
                self.inst.as_ref().unwrap()
            };
        }
        macro_rules! ks_or_skip {
            ($ks:expr) => {
                match inst!().k($ks) {
                    Some(k) if self.model.ks.contains_key(&$ks) => k.clone(),
                    _ => return Ok(StepInfo::default()),
                }
            };
        }
        match op {
            Op::Insert { ks, key, val } => {
                let k = ks_or_skip!(*ks);
                let pending_before = fjall::verif::pending_messages(&inst!().db);
                let r = k.insert(&keys[*key as usize], val.bytes()).map_err(e2s);
                if self.check_option_behaviour && r.is_ok() && cfg.workers == 0 {
                    // the memtable size limit chosen at creation decides when a rotation is requested
                    use fjall::AbstractTree;
                    let limit = match cfg.opts[*ks as usize].max_memtable {
                        0 => 64 * 1024 * 1024,
                        n => n,
                    };
                    let size = k.tree.active_memtable().size();
                    let requested = fjall::verif::pending_messages(&inst!().db) > pending_before;
                    self.stats.inc("rotation_request_checks");
                    if requested != (size > limit) {
                        viol!(
                            "options-in-force",
                            "keyspace {:?} was created with max_memtable_size {limit}; after an insert the memtable holds {size} bytes and a rotation was {}requested",
                            cfg.names[*ks as usize],
                            if requested { "" } else { "not " }
                        );
                    }
                }
                self.write_result(op, r)
            }
            Op::Remove { ks, key } => {
                let k = ks_or_skip!(*ks);
                let r = k.remove(&keys[*key as usize]).map_err(e2s);
                self.write_result(op, r)
            }
            Op::RemoveWeak { ks, key } => {
                let k = ks_or_skip!(*ks);
                // on transactional databases the wrapper's own remove_weak on odd steps
                let i = inst!();
                let r = if let (1, Some(Some(w))) = (self.step_no % 2, i.opt_ks.get(*ks as usize)) {
                    self.stats.inc("remove_weak_via_tx_keyspace");
                    w.remove_weak(&keys[*key as usize]).map_err(e2s)
                } else if let (1, Some(Some(w))) = (self.step_no % 2, i.sw_ks.get(*ks as usize)) {
                    self.stats.inc("remove_weak_via_tx_keyspace");
                    w.remove_weak(&keys[*key as usize]).map_err(e2s)
                } else {
                    k.remove_weak(&keys[*key as usize]).map_err(e2s)
                };
                self.write_result(op, r)
            }
            Op::Batch { items, dur: d } => {
                let mut b = inst!().db.batch();
                if let Some(d) = d {
                    b = b.durability(Some(dur(d)));
                }
                let mut any = false;
                for it in items {
                    let Some(k) = inst!().k(it.ks) else { continue };
                    if !self.model.ks.contains_key(&it.ks) {
                        continue;
                    }
                    any = true;
                    match &it.kind {
                        BKind::Put(v) => b.insert(k, &keys[it.key as usize], v.bytes()),
                        BKind::Del => b.remove(k, &keys[it.key as usize]),
                        BKind::DelWeak => b.remove_weak(k, &keys[it.key as usize]),
                    }
                }
                if !any {
                    return Ok(StepInfo::default());
                }
                let r = b.commit().map_err(e2s);
                self.write_result(op, r)
            }
            Op::Clear { ks } => {
                let k = ks_or_skip!(*ks);
                let r = k.clear().map_err(e2s);
                self.write_result(op, r)
            }
            Op::Ingest { ks, items } => {
                let k = ks_or_skip!(*ks);
                if items.is_empty() {
                    return Ok(StepInfo::default());
                }
                let r = (|| -> Result<(), String> {
                    let mut ing = k.start_ingestion().map_err(e2s)?;
                    let mut sorted: Vec<_> = items.iter().map(|(k, v)| (keys[*k as usize].clone(), v)).collect();
                    sorted.sort_by(|a, b| a.0.cmp(&b.0));
                    sorted.dedup_by(|a, b| a.0 == b.0);
                    for (key, v) in sorted {
                        match v {
                            Some(v) => ing.write(&key[..], v.bytes()).map_err(e2s)?,
                            None => ing.write_tombstone(&key[..]).map_err(e2s)?,
                        }
                    }
                    ing.finish().map_err(e2s)
                })();
                // the model applies items in key order with dedup: same as above because
                // apply_write inserts each; duplicates: last one in the list wins in the model,
                // the generator never emits duplicate keys in one ingestion
                self.write_result(op, r)
            }
            Op::TxKsInsert { ks, key, val } => {
                let _ = ks_or_skip!(*ks);
                let i = inst!();
                let r = if let Some(Some(k)) = i.opt_ks.get(*ks as usize) {
                    k.insert(&keys[*key as usize], val.bytes()).map_err(e2s)
                } else if let Some(Some(k)) = i.sw_ks.get(*ks as usize) {
                    k.insert(&keys[*key as usize], val.bytes()).map_err(e2s)
                } else {
                    return Ok(StepInfo::default());
                };
                self.record_single_tx(op);
                self.write_result(op, r)
            }
            Op::TxKsRemove { ks, key } => {
                let _ = ks_or_skip!(*ks);
                let i = inst!();
                let r = if let Some(Some(k)) = i.opt_ks.get(*ks as usize) {
                    k.remove(&keys[*key as usize]).map_err(e2s)
                } else if let Some(Some(k)) = i.sw_ks.get(*ks as usize) {
                    k.remove(&keys[*key as usize]).map_err(e2s)
                } else {
                    return Ok(StepInfo::default());
                };
                self.record_single_tx(op);
                self.write_result(op, r)
            }
            Op::TxKsTake { ks, key } | Op::TxKsFetchUpdate { ks, key, .. } | Op::TxKsUpdateFetch { ks, key, .. } => {
                let _ = ks_or_skip!(*ks);
                let kb = &keys[*key as usize];
                let prev = self.model.map(*ks).and_then(|m| m.get(kb)).cloned();
                let (want, f) = match op {
                    Op::TxKsTake { .. } => (prev.clone(), UpdFn::Delete),
                    Op::TxKsFetchUpdate { f, .. } => (prev.clone(), f.clone()),
                    Op::TxKsUpdateFetch { f, .. } => (apply_updfn(f, prev.as_ref()), f.clone()),
                    _ => unreachable!(),
                };
                let fun = |p: Option<&fjall::UserValue>| -> Option<fjall::UserValue> {
                    apply_updfn(&f, p.map(|x| x.to_vec()).as_ref()).map(Into::into)
                };
                let i = inst!();
                let got = if let Some(Some(k)) = i.opt_ks.get(*ks as usize) {
                    match op {
                        Op::TxKsTake { .. } => k.take(&kb[..]),
                        Op::TxKsFetchUpdate { .. } => k.fetch_update(&kb[..], fun),
                        _ => k.update_fetch(&kb[..], fun),
                    }
                } else if let Some(Some(k)) = i.sw_ks.get(*ks as usize) {
                    match op {
                        Op::TxKsTake { .. } => k.take(&kb[..]),
                        Op::TxKsFetchUpdate { .. } => k.fetch_update(&kb[..], fun),
                        _ => k.update_fetch(&kb[..], fun),
                    }
                } else {
                    return Ok(StepInfo::default());
                };
                self.record_single_tx(op);
                match got {
                    Ok(g) => {
                        let g = g.map(|x| x.to_vec());
                        if g != want {
                            viol!(
                                "helper-return",
                                "{op:?} returned {:?}, model says {:?}",
                                g.as_ref().map(|x| show(x)),
                                want.as_ref().map(|x| show(x))
                            );
                        }
                        self.write_result(op, Ok(()))
                    }
                    Err(e) => self.write_result(op, Err(e2s(e))),
                }
            }
            Op::TxBegin { slot, dur: d } => {
                if self.txs.contains_key(slot) {
                    return Ok(StepInfo::default());
                }
                let i = inst!();
                let h = if let Some(sw) = &i.sw {
                    if self.txs.values().any(|t| matches!(t.h, Some(TxHandle::Sw(..)))) {
                        // a second single-writer tx would block forever on one thread
                        return Ok(StepInfo::default());
                    }
                    let boxed = Box::new(sw.clone());
                    // SAFETY (harness only): the boxed database outlives the transaction, both
                    // live in the same TxHandle and the tx is dropped first
                    let r: &'static fjall::SingleWriterTxDatabase =
                        unsafe { &*(std::ptr::addr_of!(*boxed)) };
                    let mut tx = r.write_tx();
                    if let Some(d) = d {
                        tx = tx.durability(Some(dur(d)));
                    }
                    TxHandle::Sw(tx, boxed)
                } else if let Some(o) = &i.opt {
                    match o.write_tx() {
                        Ok(mut tx) => {
                            if let Some(d) = d {
                                tx = tx.durability(Some(dur(d)));
                            }
                            TxHandle::Opt(tx)
                        }
                        Err(e) => viol!("unexpected-error", "write_tx failed: {e:?}"),
                    }
                } else {
                    return Ok(StepInfo::default());
                };
                if self.tx_initial.is_none() {
                    self.tx_initial = Some(self.model.clone());
                }
                self.txlog.push(TxRecord {
                    begin: self.step_no,
                    end: usize::MAX,
                    ops: vec![],
                    results: vec![],
                    committed: None,
                    conflict: false,
                });
                self.txs.insert(
                    *slot,
                    TxSlot {
                        h: Some(h),
                        m: TxModel::new(self.model.clone()),
                        rec: self.txlog.len() - 1,
                    },
                );
                self.stats.inc("tx_begun");
                Ok(StepInfo::default())
            }
            Op::TxOp { slot, op: top } => {
                let Some(mut t) = self.txs.remove(slot) else {
                    return Ok(StepInfo::default());
                };
                let r = self.exec_txop(&mut t, top);
                self.txs.insert(*slot, t);
                r.map(|()| StepInfo::default())
            }
            Op::TxEnd { slot, end } => {
                let Some(mut t) = self.txs.remove(slot) else {
                    return Ok(StepInfo::default());
                };
                let h = t.h.take().unwrap();
                let step_no = self.step_no;
                match end {
                    TxEnd::Rollback | TxEnd::Drop => {
                        match (h, end) {
                            (TxHandle::Sw(tx, _b), TxEnd::Rollback) => tx.rollback(),
                            (TxHandle::Opt(tx), TxEnd::Rollback) => tx.rollback(),
                            (h, _) => drop(h),
                        }
                        let rec = &mut self.txlog[t.rec];
                        rec.committed = Some(false);
                        rec.end = step_no;
                        self.stats.inc("tx_rolled_back");
                        Ok(StepInfo::default())
                    }
                    TxEnd::Commit => {
                        let res: Result<bool, String> = match h {
                            TxHandle::Sw(tx, _b) => tx.commit().map(|()| true).map_err(e2s),
                            TxHandle::Opt(tx) => match tx.commit() {
                                Ok(Ok(())) => Ok(true),
                                Ok(Err(_conflict)) => Ok(false),
                                Err(e) => Err(e2s(e)),
                            },
                        };
                        let rec = &mut self.txlog[t.rec];
                        rec.end = step_no;
                        match res {
                            Ok(true) => {
                                rec.committed = Some(true);
                                self.stats.inc("tx_committed");
                                if t.m.writes.is_empty() {
                                    // read-only commit: not a write op
                                    return Ok(StepInfo::default());
                                }
                                t.m.apply_to(&mut self.model);
                                self.commit_history();
                                Ok(StepInfo {
                                    acked: true,
                                    failed: None, failed_state: None })
                            }
                            Ok(false) => {
                                rec.committed = Some(false);
                                rec.conflict = true;
                                self.stats.inc("tx_conflicted");
                                Ok(StepInfo::default())
                            }
                            Err(e) => {
                                rec.committed = Some(false);
                                if self.tolerate_errors {
                                    let mut would = self.model.clone();
                                    t.m.apply_to(&mut would);
                                    Ok(StepInfo {
                                        acked: false,
                                        failed: Some(e),
                                        failed_state: Some(would),
                                    })
                                } else {
                                    viol!("unexpected-error", "tx commit failed without any injected fault: {e}")
                                }
                            }
                        }
                    }
                }
            }
            Op::Read(r) => {
                let k = ks_or_skip!(r.ks());
                let real = read_keyspace(&k, keys, r);
                let want = model_read(self.model.map(r.ks()).unwrap(), keys, r);
                self.stats.inc("reads");
                self.compare("map-equivalence", &format!("{r:?}"), r.ks(), &real, &want, r)?;
                // the transactional keyspace wrappers have read methods of their own
                let via_wrapper = {
                    let i = inst!();
                    macro_rules! wr {
                        ($w:expr) => {
                            match r {
                                ReadOp::Get { key, .. } => Some(match $w.get(&keys[*key as usize]) {
                                    Ok(v) => ReadResult::Val(v.map(|v| v.to_vec())),
                                    Err(e) => ReadResult::Err(e2s(e)),
                                }),
                                ReadOp::Contains { key, .. } => Some(match $w.contains_key(&keys[*key as usize]) {
                                    Ok(v) => ReadResult::Bool(v),
                                    Err(e) => ReadResult::Err(e2s(e)),
                                }),
                                ReadOp::SizeOf { key, .. } => Some(match $w.size_of(&keys[*key as usize]) {
                                    Ok(v) => ReadResult::Size(v),
                                    Err(e) => ReadResult::Err(e2s(e)),
                                }),
                                ReadOp::First { .. } => Some(match $w.first_key_value().map(kv).transpose() {
                                    Ok(v) => ReadResult::Kv(v),
                                    Err(e) => ReadResult::Err(e),
                                }),
                                ReadOp::Last { .. } => Some(match $w.last_key_value().map(kv).transpose() {
                                    Ok(v) => ReadResult::Kv(v),
                                    Err(e) => ReadResult::Err(e),
                                }),
                                _ => None,
                            }
                        };
                    }
                    if let Some(Some(w)) = i.opt_ks.get(r.ks() as usize) {
                        wr!(w)
                    } else if let Some(Some(w)) = i.sw_ks.get(r.ks() as usize) {
                        wr!(w)
                    } else {
                        None
                    }
                };
                if let Some(real2) = via_wrapper {
                    self.stats.inc("reads_via_tx_keyspace");
                    self.compare("map-equivalence", &format!("{r:?} through the transactional keyspace wrapper"), r.ks(), &real2, &want, r)?;
                }
                Ok(StepInfo::default())
            }
            Op::ViewOpen { slot, kind } => {
                let i = inst!();
                let snap = match (kind, &i.sw, &i.opt) {
                    (ViewKind::ReadTx, Some(t), _) => t.read_tx(),
                    (ViewKind::ReadTx, _, Some(t)) => t.read_tx(),
                    _ => i.db.snapshot(),
                };
                self.views.insert(
                    *slot,
                    ViewSlot {
                        snap,
                        frozen: self.model.clone(),
                    },
                );
                self.stats.inc("views_opened");
                Ok(StepInfo::default())
            }
            Op::ViewClone { from, to } => {
                if let Some(v) = self.views.get(from) {
                    let nv = ViewSlot {
                        snap: v.snap.clone(),
                        frozen: v.frozen.clone(),
                    };
                    self.views.insert(*to, nv);
                }
                Ok(StepInfo::default())
            }
            Op::ViewDrop { slot } => {
                self.views.remove(slot);
                Ok(StepInfo::default())
            }
            Op::ViewRead { slot, op: r } => {
                let Some(v) = self.views.get(slot) else {
                    return Ok(StepInfo::default());
                };
                let ks = r.ks();
                // only keyspaces that existed at view creation and are the same incarnation
                let (Some(f), Some(cur)) = (v.frozen.ks.get(&ks), self.model.ks.get(&ks)) else {
                    return Ok(StepInfo::default());
                };
                if f.inc != cur.inc {
                    return Ok(StepInfo::default());
                }
                let Some(k) = inst!().k(ks) else {
                    return Ok(StepInfo::default());
                };
                let real = read_readable(&v.snap, k, keys, r);
                let want = model_read(&f.map, keys, r);
                self.stats.inc("view_reads");
                if self.model.map(ks) != Some(&f.map) {
                    self.stats.inc("view_reads_after_divergence");
                }
                self.compare("frozen-view", &format!("view {slot} {r:?}"), ks, &real, &want, r)?;
                Ok(StepInfo::default())
            }
            Op::IterOpen { slot, src, ks, range } => {
                let k = ks_or_skip!(*ks);
                let (it, items) = match src {
                    IterSrc::Keyspace => {
                        let it = match range {
                            RangeSpec::All => k.iter(),
                            RangeSpec::Range(lo, hi) => k.range::<Vec<u8>, _>(bounds(lo, hi)),
                            RangeSpec::Prefix(p) => k.prefix(p),
                        };
                        (it, range_items(self.model.map(*ks).unwrap(), range))
                    }
                    IterSrc::View(s) => {
                        let Some(v) = self.views.get(s) else {
                            return Ok(StepInfo::default());
                        };
                        let (Some(f), Some(cur)) = (v.frozen.ks.get(ks), self.model.ks.get(ks)) else {
                            return Ok(StepInfo::default());
                        };
                        if f.inc != cur.inc {
                            return Ok(StepInfo::default());
                        }
                        let it = match range {
                            RangeSpec::All => v.snap.iter(&k),
                            RangeSpec::Range(lo, hi) => v.snap.range::<Vec<u8>, _>(&k, bounds(lo, hi)),
                            RangeSpec::Prefix(p) => v.snap.prefix(&k, p),
                        };
                        (it, range_items(&f.map, range))
                    }
                    IterSrc::Tx(s) => {
                        let Some(t) = self.txs.get(s) else {
                            return Ok(StepInfo::default());
                        };
                        let items = range_items(&t.m.effective(*ks), range);
                        macro_rules! mk {
                            ($tx:expr) => {
                                match range {
                                    RangeSpec::All => $tx.iter(&k),
                                    RangeSpec::Range(lo, hi) => $tx.range::<Vec<u8>, _>(&k, bounds(lo, hi)),
                                    RangeSpec::Prefix(p) => $tx.prefix(&k, p),
                                }
                            };
                        }
                        let it = match t.h.as_ref().unwrap() {
                            TxHandle::Sw(tx, _) => mk!(tx),
                            TxHandle::Opt(tx) => mk!(tx),
                        };
                        (it, items)
                    }
                };
                self.iters.insert(
                    *slot,
                    IterSlot {
                        it,
                        expected: items.into(),
                    },
                );
                self.stats.inc("iters_opened");
                Ok(StepInfo::default())
            }
            Op::IterStep { slot, n, back } => {
                let Some(s) = self.iters.get_mut(slot) else {
                    return Ok(StepInfo::default());
                };
                for _ in 0..*n {
                    let (g, want) = if *back {
                        (s.it.next_back(), s.expected.pop_back())
                    } else {
                        (s.it.next(), s.expected.pop_front())
                    };
                    let got = match g.map(kv).transpose() {
                        Ok(x) => x,
                        Err(e) => viol!("frozen-view", "iterator {slot} returned an error: {e}"),
                    };
                    self.stats.inc("iter_steps");
                    if got != want {
                        viol!(
                            "frozen-view",
                            "iterator {slot} yielded {:?} but the state at its creation gives {:?}",
                            got.as_ref().map(|(k, v)| format!("{}={}", show(k), show(v))),
                            want.as_ref().map(|(k, v)| format!("{}={}", show(k), show(v)))
                        );
                    }
                    if got.is_none() {
                        break;
                    }
                }
                Ok(StepInfo::default())
            }
            Op::IterDrop { slot } => {
                self.iters.remove(slot);
                Ok(StepInfo::default())
            }
            Op::ViewBurst { n } => {
                let db = inst!().db.clone();
                for _ in 0..*n {
                    drop(db.snapshot());
                }
                self.stats.inc("view_bursts");
                Ok(StepInfo::default())
            }
            Op::Rotate { ks } => {
                let k = ks_or_skip!(*ks);
                match k.rotate_memtable() {
                    Ok(true) => self.stats.inc("rotations"),
                    Ok(false) => {}
                    Err(e) => {
                        if self.tolerate_errors {
                            return Ok(StepInfo {
                                acked: false,
                                failed: Some(e2s(e)), failed_state: None });
                        }
                        viol!("unexpected-error", "rotate_memtable failed: {e:?}")
                    }
                }
                Ok(StepInfo::default())
            }
            Op::WorkerStep => self.worker_steps(1),
            Op::Drain => self.worker_steps(500),
            Op::MajorCompact { ks } => {
                let k = ks_or_skip!(*ks);
                match k.major_compact() {
                    Ok(()) => {
                        self.maint_steps.push(self.step_no);
                        self.stats.inc("major_compactions")
                    }
                    Err(e) => {
                        if self.tolerate_errors {
                            return Ok(StepInfo {
                                acked: false,
                                failed: Some(e2s(e)), failed_state: None });
                        }
                        viol!("unexpected-error", "major_compact failed: {e:?}")
                    }
                }
                Ok(StepInfo::default())
            }
            Op::Gc => {
                fjall::verif::snapshot_gc(&inst!().db);
                self.stats.inc("snapshot_gcs");
                Ok(StepInfo::default())
            }
            Op::Quiesce => {
                let handles: Vec<_> = inst!().ks.iter().flatten().cloned().collect();
                for k in handles {
                    if let Err(e) = k.rotate_memtable() {
                        if self.tolerate_errors {
                            return Ok(StepInfo { acked: false, failed: Some(e2s(e)), failed_state: None });
                        }
                        viol!("unexpected-error", "rotate_memtable failed: {e:?}")
                    }
                }
                self.worker_steps(500)
            }
            Op::Persist { mode } => match inst!().db.persist(dur(mode)) {
                Ok(()) => {
                    self.stats.inc("persists");
                    Ok(StepInfo::default())
                }
                Err(e) => {
                    if self.tolerate_errors {
                        Ok(StepInfo {
                            acked: false,
                            failed: Some(e2s(e)), failed_state: None })
                    } else {
                        viol!("unexpected-error", "persist failed without injected fault: {e:?}")
                    }
                }
            },
            Op::CreateKs { ks } => {
                let existed = self.model.ks.contains_key(ks);
                let opts = cfg.opts[*ks as usize].clone();
                let res = self.inst.as_mut().unwrap().open_ks(cfg, *ks as usize, &opts);
                match res {
                    Ok(()) => {
                        if existed {
                            return Ok(StepInfo::default());
                        }
                        let k = inst!().k(*ks).unwrap().clone();
                        // the options in force right after creation are the requested ones
                        // (whatever else - a compaction filter factory - is attached on the way)
                        let requested = fjall::verif::create_options_rows(&crate::inst::make_opts(&opts), k.id());
                        let live = fjall::verif::keyspace_option_rows(&k);
                        if requested != live {
                            let diff: Vec<String> = requested
                                .iter()
                                .zip(live.iter())
                                .filter(|(a, b)| a != b)
                                .map(|(a, b)| format!("{}: requested {:?} in force {:?}", show(&a.0[9.min(a.0.len())..]), a.1, b.1))
                                .collect();
                            viol!("options-in-force", "keyspace {:?} was created with options that are not the requested ones: {}", cfg.names[*ks as usize], diff.join("; "));
                        }
                        self.created_rows
                            .insert(*ks, fjall::verif::keyspace_option_rows(&k));
                        // a new incarnation
                        let inc = self
                            .history
                            .iter()
                            .rev()
                            .find_map(|s| s.ks.get(ks).map(|k| k.inc + 1))
                            .unwrap_or(0);
                        self.model.ks.insert(
                            *ks,
                            KsState {
                                map: Map::new(),
                                inc,
                            },
                        );
                        self.commit_history();
                        self.stats.inc("keyspaces_created");
                        // a re-created name must be empty
                        let real = read_keyspace(&k, keys, &ReadOp::Scan { ks: *ks, range: RangeSpec::All, mode: ScanMode::Fwd });
                        if real != ReadResult::Items(vec![]) {
                            viol!("keyspace-isolation", "newly created keyspace {:?} is not empty: {}", cfg.names[*ks as usize], real.brief());
                        }
                        Ok(StepInfo {
                            acked: true,
                            failed: None, failed_state: None })
                    }
                    Err(e) => {
                        if self.tolerate_errors {
                            Ok(StepInfo {
                                acked: false,
                                failed: Some(e), failed_state: None })
                        } else {
                            viol!("unexpected-error", "keyspace creation failed: {e}")
                        }
                    }
                }
            }
            Op::OpenKsWith { ks, opts } => {
                if !self.model.ks.contains_key(ks) {
                    return Ok(StepInfo::default());
                }
                if let Err(e) = self.inst.as_mut().unwrap().open_ks(cfg, *ks as usize, opts) {
                    viol!("unexpected-error", "opening existing keyspace failed: {e}")
                }
                self.check_option_rows(*ks)?;
                Ok(StepInfo::default())
            }
            Op::DeleteKs { ks } => {
                let k = ks_or_skip!(*ks);
                // views / iterators / txs that reference the keyspace keep working in fjall;
                // the harness drops its own iterators on it to keep handle accounting simple
                crate::faults::IN_DELETE.store(true, std::sync::atomic::Ordering::SeqCst);
                let res = inst!().db.delete_keyspace(k.clone());
                crate::faults::IN_DELETE.store(false, std::sync::atomic::Ordering::SeqCst);
                match res {
                    Ok(()) => {
                        self.deleted_ids.push(k.id());
                        let i = self.inst.as_mut().unwrap();
                        i.drop_ks_handle(*ks as usize);
                        i.stale[*ks as usize].push(k);
                        self.model.ks.remove(ks);
                        self.commit_history();
                        self.stats.inc("keyspaces_deleted");
                        if inst!().db.keyspace_exists(&cfg.names[*ks as usize]) {
                            viol!("keyspace-deleted", "keyspace {:?} still exists after delete_keyspace", cfg.names[*ks as usize]);
                        }
                        Ok(StepInfo {
                            acked: true,
                            failed: None, failed_state: None })
                    }
                    Err(e) => {
                        if self.tolerate_errors {
                            Ok(StepInfo {
                                acked: false,
                                failed: Some(e2s(e)), failed_state: None })
                        } else {
                            viol!("unexpected-error", "delete_keyspace failed: {e:?}")
                        }
                    }
                }
            }
            Op::DropHandle { ks } => {
                let i = self.inst.as_mut().unwrap();
                i.stale[*ks as usize].clear();
                Ok(StepInfo::default())
            }
            Op::StaleInsert { ks, key, val } => {
                let Some(k) = inst!().stale[*ks as usize].last().cloned() else {
                    return Ok(StepInfo::default());
                };
                self.stats.inc("stale_writes");
                match k.insert(&keys[*key as usize], val.bytes()) {
                    Err(fjall::Error::KeyspaceDeleted) => Ok(StepInfo::default()),
                    other => viol!("keyspace-deleted", "insert through a handle of a deleted keyspace returned {other:?}, expected KeyspaceDeleted"),
                }
            }
            Op::StaleRemove { ks, key } => {
                let Some(k) = inst!().stale[*ks as usize].last().cloned() else {
                    return Ok(StepInfo::default());
                };
                self.stats.inc("stale_writes");
                match k.remove(&keys[*key as usize]) {
                    Err(fjall::Error::KeyspaceDeleted) => Ok(StepInfo::default()),
                    other => viol!("keyspace-deleted", "remove through a handle of a deleted keyspace returned {other:?}, expected KeyspaceDeleted"),
                }
            }
            Op::Reopen => {
                self.check_all()?;
                self.written_since_reopen.clear();
                self.reopened = true;
                self.close();
                self.reopen_and_check("close-reopen")?;
                self.stats.inc("reopens");
                Ok(StepInfo::default())
            }
            Op::SecondOpen => {
                let before = crate::fsutil::tree_digest(&self.dir);
                let r = Instance::open(&self.dir, cfg);
                let after = crate::fsutil::tree_digest(&self.dir);
                self.stats.inc("second_opens");
                match r {
                    Err(e) if e.contains("Locked") => {}
                    Err(e) => viol!("single-instance", "second open failed with {e}, expected Locked"),
                    Ok(_) => viol!("single-instance", "second open of a directory with live handles succeeded"),
                }
                // with real worker threads the directory legitimately changes underneath us
                if before != after && self.cfg.workers == 0 {
                    viol!("single-instance", "refused second open modified the directory");
                }
                Ok(StepInfo::default())
            }
            Op::BatchDeleteCommit { items, ks } => {
                let victim = ks_or_skip!(*ks);
                let mut b = inst!().db.batch();
                let mut kept: Vec<BItem> = vec![];
                for it in items {
                    let Some(k) = inst!().k(it.ks) else { continue };
                    if !self.model.ks.contains_key(&it.ks) {
                        continue;
                    }
                    match &it.kind {
                        BKind::Put(v) => b.insert(k, &keys[it.key as usize], v.bytes()),
                        BKind::Del => b.remove(k, &keys[it.key as usize]),
                        BKind::DelWeak => b.remove_weak(k, &keys[it.key as usize]),
                    }
                    if it.ks != *ks {
                        kept.push(it.clone());
                    }
                }
                if let Err(e) = inst!().db.delete_keyspace(victim.clone()) {
                    viol!("unexpected-error", "delete_keyspace failed: {e:?}")
                }
                {
                    let i = self.inst.as_mut().unwrap();
                    self.deleted_ids.push(victim.id());
                    i.drop_ks_handle(*ks as usize);
                    i.stale[*ks as usize].push(victim);
                }
                self.model.ks.remove(ks);
                self.stats.inc("keyspaces_deleted");
                // the batch commits what is left of it, or is refused as a whole
                match b.commit() {
                    Ok(()) => {
                        let op2 = Op::Batch { items: kept, dur: None };
                        apply_write(&mut self.model, keys, &op2);
                        self.reset_sticky(&op2);
                        self.stats.inc("batches_committed_after_keyspace_delete");
                    }
                    Err(fjall::Error::KeyspaceDeleted) => {}
                    Err(e) => viol!("unexpected-error", "commit of a batch with items of a deleted keyspace failed: {e:?}"),
                }
                self.commit_history();
                Ok(StepInfo { acked: true, failed: None, failed_state: None })
            }
            Op::CheckFiltered => {
                // every keyspace has just been flushed completely and major-compacted with no view
                // open: a filter that is in effect has seen every stored item, so no item with a
                // remove / replace verdict is left in its original form ("is in effect for exactly
                // that keyspace" - a filter that silently is NOT installed would pass the
                // three-valued model for ever)
                let filtered: Vec<KsIdx> = self.model.ks.keys().copied().filter(|k| self.is_filtered(*k)).collect();
                for ks in filtered {
                    let Some(k) = inst!().k(ks).cloned() else { continue };
                    if k.sealed_memtable_count() > 0 {
                        continue;
                    }
                    for g in k.iter() {
                        let (key, v) = match g.into_inner() {
                            Ok(x) => x,
                            Err(e) => viol!("filter-model", "scan failed: {e:?}"),
                        };
                        match key.first().copied().unwrap_or(0) % 3 {
                            1 => viol!("filter-not-applied", "keyspace {:?} has a compaction filter assigned, everything was flushed and major-compacted, but key {} (verdict: remove) is still there", cfg.names[ks as usize], show(&key)),
                            2 if !v.starts_with(crate::inst::REPLACED_PREFIX) => {
                                viol!("filter-not-applied", "keyspace {:?} has a compaction filter assigned, everything was flushed and major-compacted, but key {} (verdict: replace) still has its original value", cfg.names[ks as usize], show(&key))
                            }
                            _ => {}
                        }
                    }
                    self.stats.inc("filter_applied_checks");
                }
                Ok(StepInfo::default())
            }
            Op::Check => {
                self.check_all()?;
                Ok(StepInfo::default())
            }
            Op::RunThreads => Ok(StepInfo::default()),
        }
    }

    fn record_single_tx(&mut self, op: &Op) {
        if self.tx_initial.is_none() {
            self.tx_initial = Some(self.model.clone());
        }
        // helper single-ops are one-op transactions for the serialisability checker
        let top = match op {
            Op::TxKsInsert { ks, key, val } => TxOp::Insert { ks: *ks, key: *key, val: val.clone() },
            Op::TxKsRemove { ks, key } => TxOp::Remove { ks: *ks, key: *key },
            Op::TxKsTake { ks, key } => TxOp::Take { ks: *ks, key: *key },
            Op::TxKsFetchUpdate { ks, key, f } => TxOp::FetchUpdate { ks: *ks, key: *key, f: f.clone() },
            Op::TxKsUpdateFetch { ks, key, f } => TxOp::UpdateFetch { ks: *ks, key: *key, f: f.clone() },
            _ => return,
        };
        let mut m = TxModel::new(self.model.clone());
        let res = m.exec(self.keys(), &top);
        self.txlog.push(TxRecord {
            begin: self.step_no,
            end: self.step_no,
            ops: vec![top],
            results: vec![res],
            committed: Some(true),
            conflict: false,
        });
    }

    fn exec_txop(&mut self, t: &mut TxSlot, top: &TxOp) -> Result<(), Violation> {
        let keys = self.keys();
        let inst = self.inst.as_ref().unwrap();
        let ksidx = match top {
            TxOp::Read(r) => r.ks(),
            TxOp::Insert { ks, .. }
            | TxOp::InsertDerived { ks, .. }
            | TxOp::Remove { ks, .. }
            | TxOp::Take { ks, .. }
            | TxOp::FetchUpdate { ks, .. }
            | TxOp::UpdateFetch { ks, .. } => *ks,
        };
        // only keyspaces that exist now and existed (same incarnation) at tx begin
        let (Some(f), Some(cur)) = (t.m.snap.ks.get(&ksidx), self.model.ks.get(&ksidx)) else {
            return Ok(());
        };
        if f.inc != cur.inc {
            return Ok(());
        }
        let Some(k) = inst.k(ksidx).cloned() else {
            return Ok(());
        };
        let sw_k = inst.sw_ks.get(ksidx as usize).cloned().flatten();
        let digest_before = t.m.read_digest;
        let want = t.m.exec(keys, top);
        let h = t.h.as_mut().unwrap();
        let upd = |f: &UpdFn| {
            let f = f.clone();
            move |p: Option<&fjall::UserValue>| -> Option<fjall::UserValue> {
                apply_updfn(&f, p.map(|x| x.to_vec()).as_ref()).map(Into::into)
            }
        };
        let real: ReadResult = match (h, top) {
            (TxHandle::Sw(tx, _), TxOp::Read(r)) => read_readable(tx, &k, keys, r),
            (TxHandle::Opt(tx), TxOp::Read(r)) => read_readable(tx, &k, keys, r),
            (TxHandle::Sw(tx, _), TxOp::Insert { key, val, .. }) => {
                tx.insert(sw_k.as_ref().unwrap(), &keys[*key as usize], val.bytes());
                ReadResult::Bool(true)
            }
            (TxHandle::Opt(tx), TxOp::Insert { key, val, .. }) => {
                tx.insert(&k, &keys[*key as usize], val.bytes());
                ReadResult::Bool(true)
            }
            (TxHandle::Sw(tx, _), TxOp::InsertDerived { key, id, .. }) => {
                tx.insert(sw_k.as_ref().unwrap(), &keys[*key as usize], derive_value(*id, digest_before));
                ReadResult::Bool(true)
            }
            (TxHandle::Opt(tx), TxOp::InsertDerived { key, id, .. }) => {
                tx.insert(&k, &keys[*key as usize], derive_value(*id, digest_before));
                ReadResult::Bool(true)
            }
            (TxHandle::Sw(tx, _), TxOp::Remove { key, .. }) => {
                tx.remove(sw_k.as_ref().unwrap(), &keys[*key as usize]);
                ReadResult::Bool(true)
            }
            (TxHandle::Opt(tx), TxOp::Remove { key, .. }) => {
                tx.remove(&k, &keys[*key as usize]);
                ReadResult::Bool(true)
            }
            (TxHandle::Sw(tx, _), TxOp::Take { key, .. }) => match tx.take(sw_k.as_ref().unwrap(), &keys[*key as usize][..]) {
                Ok(v) => ReadResult::Val(v.map(|x| x.to_vec())),
                Err(e) => ReadResult::Err(e2s(e)),
            },
            (TxHandle::Opt(tx), TxOp::Take { key, .. }) => match tx.take(&k, &keys[*key as usize][..]) {
                Ok(v) => ReadResult::Val(v.map(|x| x.to_vec())),
                Err(e) => ReadResult::Err(e2s(e)),
            },
            (TxHandle::Sw(tx, _), TxOp::FetchUpdate { key, f, .. }) => match tx.fetch_update(sw_k.as_ref().unwrap(), &keys[*key as usize][..], upd(f)) {
                Ok(v) => ReadResult::Val(v.map(|x| x.to_vec())),
                Err(e) => ReadResult::Err(e2s(e)),
            },
            (TxHandle::Opt(tx), TxOp::FetchUpdate { key, f, .. }) => match tx.fetch_update(&k, &keys[*key as usize][..], upd(f)) {
                Ok(v) => ReadResult::Val(v.map(|x| x.to_vec())),
                Err(e) => ReadResult::Err(e2s(e)),
            },
            (TxHandle::Sw(tx, _), TxOp::UpdateFetch { key, f, .. }) => match tx.update_fetch(sw_k.as_ref().unwrap(), &keys[*key as usize][..], upd(f)) {
                Ok(v) => ReadResult::Val(v.map(|x| x.to_vec())),
                Err(e) => ReadResult::Err(e2s(e)),
            },
            (TxHandle::Opt(tx), TxOp::UpdateFetch { key, f, .. }) => match tx.update_fetch(&k, &keys[*key as usize][..], upd(f)) {
                Ok(v) => ReadResult::Val(v.map(|x| x.to_vec())),
                Err(e) => ReadResult::Err(e2s(e)),
            },
        };
        self.stats.inc("tx_ops");
        let rec = &mut self.txlog[t.rec];
        rec.ops.push(top.clone());
        rec.results.push(real.clone());
        if real != want {
            return Err(Violation::new(
                "tx-local",
                format!(
                    "in-transaction {top:?}: real {} but snapshot+own-writes model says {}",
                    real.brief(),
                    want.brief()
                ),
            ));
        }
        Ok(())
    }

    pub fn worker_steps(&mut self, max: usize) -> Result<StepInfo, Violation> {
        let db = self.inst.as_ref().unwrap().db.clone();
        for _ in 0..max {
            match fjall::verif::worker_step(&db) {
                Ok(Some(desc)) => {
                    self.maint_steps.push(self.step_no);
                    self.stats.inc("worker_steps");
                    if desc.contains("Flush") {
                        self.stats.inc("worker_flush");
                    } else if desc.contains("Compact") {
                        self.stats.inc("worker_compact");
                    } else if desc.contains("Rotate") {
                        self.stats.inc("worker_rotate");
                    }
                }
                Ok(None) => break,
                Err(e) => {
                    if self.tolerate_errors {
                        return Ok(StepInfo {
                            acked: false,
                            failed: Some(format!("worker: {e:?}")), failed_state: None });
                    }
                    viol!("unexpected-error", "background work failed: {e:?}")
                }
            }
        }
        Ok(StepInfo::default())
    }

    /// Opens the directory again, re-opens a handle for every keyspace of the model and checks
    /// names and content.
    pub fn reopen_and_check(&mut self, clause: &str) -> Result<(), Violation> {
        self.open().map_err(|mut v| {
            v.clause = clause.to_string();
            v
        })?;
        self.check_names(clause)?;
        self.check_after_reopen()?;
        let cfg = self.cfg;
        let existing: Vec<KsIdx> = self.model.ks.keys().copied().collect();
        for ks in existing {
            let opts = self
                .reopen_opts
                .clone()
                .unwrap_or_else(|| cfg.opts[ks as usize].clone());
            if let Err(e) = self.inst.as_mut().unwrap().open_ks(cfg, ks as usize, &opts) {
                viol!(clause, "opening existing keyspace after reopen failed: {e}")
            }
            self.check_option_rows(ks)?;
        }
        self.check_all().map_err(|mut v| {
            if v.clause == "map-equivalence" {
                v.clause = clause.to_string();
            }
            v
        })
    }

    /// C11 / C12 checks that only make sense right after an open
    pub fn check_after_reopen(&mut self) -> Result<(), Violation> {
        use fjall::AbstractTree;
        let inst = self.inst.as_ref().unwrap();
        let next = inst.db.seqno();
        let visible = inst.db.visible_seqno();
        let keyspaces = inst.db.supervisor.keyspaces.read().unwrap();
        for k in keyspaces.values() {
            if let Some(hi) = k.tree.get_highest_seqno() {
                if next <= hi {
                    viol!("seqno-after-reopen", "after reopen the seqno counter is {next} but keyspace {:?} holds seqno {hi}", k.name());
                }
            }
        }
        drop(keyspaces);
        if visible > next {
            viol!("seqno-after-reopen", "after reopen visible seqno {visible} exceeds the seqno counter {next}");
        }
        self.stats.inc("reopen_seqno_checks");
        for id in &self.deleted_ids {
            let p = self.dir.join("keyspaces").join(id.to_string());
            // an id may legitimately be reused by a later keyspace; then the folder belongs to a
            // live keyspace and content checks (not this one) decide
            let reused = inst.db.supervisor.keyspaces.read().unwrap().values().any(|k| k.id() == *id);
            if !reused && crate::interpose::bypass(|| p.exists()) {
                viol!("keyspace-deleted", "folder keyspaces/{id} of a deleted keyspace still exists after reopen");
            }
        }
        Ok(())
    }

    pub fn check_option_rows(&mut self, ks: KsIdx) -> Result<(), Violation> {
        let Some(want) = self.created_rows.get(&ks) else {
            return Ok(());
        };
        let inst = self.inst.as_ref().unwrap();
        let Some(k) = inst.k(ks) else { return Ok(()) };
        let got = fjall::verif::keyspace_option_rows(k);
        self.stats.inc("option_row_checks");
        if self.check_option_behaviour && k.is_kv_separated() != self.cfg.opts[ks as usize].blob.is_some() {
            viol!("options-in-force", "keyspace {:?}: is_kv_separated() = {} but it was created {} key-value separation", self.cfg.names[ks as usize], k.is_kv_separated(), if self.cfg.opts[ks as usize].blob.is_some() { "with" } else { "without" });
        }
        if &got != want {
            let diff: Vec<String> = want
                .iter()
                .zip(got.iter())
                .filter(|(a, b)| a != b)
                .map(|(a, b)| format!("{}: created {:?} now {:?}", show(&a.0[9..]), a.1, b.1))
                .collect();
            viol!("options-in-force", "keyspace {:?} options differ from creation: {}", self.cfg.names[ks as usize], diff.join("; "));
        }
        Ok(())
    }

    pub fn check_names(&mut self, clause: &str) -> Result<(), Violation> {
        let inst = self.inst.as_ref().unwrap();
        let mut real: Vec<String> = inst
            .db
            .list_keyspace_names()
            .iter()
            .map(|s| s.to_string())
            .collect();
        real.sort();
        let mut want: Vec<String> = self
            .model
            .ks
            .keys()
            .map(|i| self.cfg.names[*i as usize].clone())
            .collect();
        want.sort();
        if real != want {
            viol!(clause, "keyspace names are {real:?}, model says {want:?}");
        }
        for (i, n) in self.cfg.names.iter().enumerate() {
            let e = inst.db.keyspace_exists(n);
            if e != self.model.ks.contains_key(&(i as u8)) {
                viol!(clause, "keyspace_exists({n:?}) = {e}, model disagrees");
            }
        }
        Ok(())
    }

    /// Cross-invariant: every read path of every live keyspace against the model and each other.
    pub fn check_all(&mut self) -> Result<(), Violation> {
        let Some(inst) = self.inst.as_ref() else {
            return Ok(());
        };
        let keys = self.keys();
        self.stats.inc("cross_checks");
        let existing: Vec<KsIdx> = self.model.ks.keys().copied().collect();
        let mut probes: Vec<(KsIdx, Keyspace)> = vec![];
        for ks in existing {
            if let Some(k) = inst.k(ks) {
                probes.push((ks, k.clone()));
            }
        }
        for (ks, k) in probes {
            let mut ops = vec![
                ReadOp::Scan { ks, range: RangeSpec::All, mode: ScanMode::Fwd },
                ReadOp::Scan { ks, range: RangeSpec::All, mode: ScanMode::Rev },
                ReadOp::Scan { ks, range: RangeSpec::All, mode: ScanMode::Ends(vec![true, false, true, true, false]) },
                ReadOp::Len { ks },
                ReadOp::IsEmpty { ks },
                ReadOp::First { ks },
                ReadOp::Last { ks },
            ];
            for i in 0..keys.len() {
                ops.push(ReadOp::Get { ks, key: i as u8 });
                ops.push(ReadOp::Contains { ks, key: i as u8 });
                ops.push(ReadOp::SizeOf { ks, key: i as u8 });
            }
            if self.is_filtered(ks) {
                self.check_filtered(ks, &k, &ops)?;
            } else {
                for r in &ops {
                    let real = read_keyspace(&k, keys, r);
                    let want = model_read(self.model.map(ks).unwrap(), keys, r);
                    if real != want {
                        let mut detail = format!(
                            "cross-check {r:?} on {:?}: real {} but reference model says {}",
                            self.cfg.names[ks as usize],
                            real.brief(),
                            want.brief()
                        );
                        if let (ReadResult::Items(ri), ReadResult::Items(wi)) = (&real, &want) {
                            detail.push_str(&self.classify_diff(ks, ri, wi));
                        }
                        return Err(Violation::new("map-equivalence", detail));
                    }
                }
            }
            // the other accessors of an iterator item (key / value / size / conditional value)
            if !self.is_filtered(ks) {
                let want: Vec<(Vec<u8>, Vec<u8>)> = self.model.map(ks).unwrap().iter().map(|(a, b)| (a.clone(), b.clone())).collect();
                let mut got_keys = vec![];
                let mut got_vals = vec![];
                let mut got_sizes = vec![];
                let mut got_cond = vec![];
                let mut err = None;
                for g in k.iter() {
                    match g.key() {
                        Ok(x) => got_keys.push(x.to_vec()),
                        Err(e) => err = Some(format!("{e:?}")),
                    }
                }
                for g in k.iter().rev() {
                    match g.value() {
                        Ok(x) => got_vals.push(x.to_vec()),
                        Err(e) => err = Some(format!("{e:?}")),
                    }
                }
                got_vals.reverse();
                for g in k.iter() {
                    match g.size() {
                        Ok(x) => got_sizes.push(x),
                        Err(e) => err = Some(format!("{e:?}")),
                    }
                }
                for g in k.iter() {
                    // value wanted for keys of even length only
                    match g.into_inner_if(|key| key.len() % 2 == 0) {
                        Ok((a, b)) => got_cond.push((a.to_vec(), b.map(|x| x.to_vec()))),
                        Err(e) => err = Some(format!("{e:?}")),
                    }
                }
                let name = &self.cfg.names[ks as usize];
                if let Some(e) = err {
                    return Err(Violation::new("map-equivalence", format!("cross-check of iterator item accessors on {name:?} failed: {e}")));
                }
                let wk: Vec<Vec<u8>> = want.iter().map(|x| x.0.clone()).collect();
                let wv: Vec<Vec<u8>> = want.iter().map(|x| x.1.clone()).collect();
                let ws: Vec<u32> = want.iter().map(|x| x.1.len() as u32).collect();
                let wc: Vec<(Vec<u8>, Option<Vec<u8>>)> = want.iter().map(|x| (x.0.clone(), if x.0.len() % 2 == 0 { Some(x.1.clone()) } else { None })).collect();
                if got_keys != wk || got_vals != wv || got_sizes != ws || got_cond != wc {
                    let which = if got_keys != wk { "key()" } else if got_vals != wv { "value()" } else if got_sizes != ws { "size()" } else { "into_inner_if()" };
                    return Err(Violation::new(
                        "map-equivalence",
                        format!("cross-check of iterator item accessor {which} on {name:?}: items differ from the reference model ({} items expected)", want.len()),
                    ));
                }
                self.stats.inc("guard_accessor_checks");
            }
            self.stats.max("max_tables", k.table_count() as u64);
            self.stats.max("max_blob_files", k.blob_file_count() as u64);
            self.stats.max("max_l0_tables", k.l0_table_count() as u64);
            self.stats.max("max_sealed", k.sealed_memtable_count() as u64);
            if k.table_count() > k.l0_table_count() {
                self.stats.inc("probe_deeper_levels");
            }
        }
        let db = &self.inst.as_ref().unwrap().db;
        self.stats.max("max_journals", db.journal_count() as u64);
        Ok(())
    }

    /// C18 three-valued model for a filtered keyspace
    fn check_filtered(&mut self, ks: KsIdx, k: &Keyspace, ops: &[ReadOp]) -> Result<(), Violation> {
        let keys = self.keys();
        let scan = read_keyspace(k, keys, &ops[0]);
        let ReadResult::Items(scan_items) = &scan else {
            viol!("filter-model", "scan failed: {}", scan.brief());
        };
        let observed: Map = scan_items.iter().cloned().collect();
        let base = self.model.map(ks).unwrap().clone();
        // stickiness first, to name the failure precisely
        for (key, orig) in &base {
            let verdict = key.first().copied().unwrap_or(0) % 3;
            if verdict == 0 {
                continue;
            }
            let skey = (ks, key.clone());
            let now = observed.get(key);
            let is_orig = now == Some(orig) && !(verdict == 2 && orig.starts_with(crate::inst::REPLACED_PREFIX));
            if let Some(prev) = self.filter_sticky.get(&skey) {
                if is_orig {
                    let after_reopen = !self.written_since_reopen.contains(&skey);
                    viol!(
                        if after_reopen && verdict == 1 { "filter-remove-undone-by-reopen" } else if after_reopen { "filter-replace-undone-by-reopen" } else { "filter-resurrected" },
                        "key {} of filtered keyspace {:?} was observed filtered as {:?} and later reads its original {} without being rewritten{}",
                        show(key),
                        self.cfg.names[ks as usize],
                        prev.as_ref().map(|x| show(x)),
                        show(orig),
                        if after_reopen { " (a reopen happened in between: journal replay restored it)" } else { "" }
                    );
                }
            }
        }
        if !self.allowed_maps(ks).iter().any(|m| m == &observed) {
            viol!(
                "filter-model",
                "content {} of filtered keyspace {:?} is not explained by the last written values {} under the filter verdicts",
                scan.brief(),
                self.cfg.names[ks as usize],
                ReadResult::Items(base.iter().map(|(a, b)| (a.clone(), b.clone())).collect()).brief()
            );
        }
        for (key, orig) in &base {
            let verdict = key.first().copied().unwrap_or(0) % 3;
            if verdict != 0 && observed.get(key) != Some(orig) {
                if self.filter_sticky.insert((ks, key.clone()), observed.get(key).cloned()).is_none() {
                    self.stats.inc("probe_filtered_observed");
                }
            }
        }
        // every read path must agree with the content the scan shows
        for r in ops {
            let real = read_keyspace(k, keys, r);
            let want = model_read(&observed, keys, r);
            if real != want {
                let after_reopen = match r {
                    ReadOp::Get { key, .. } | ReadOp::Contains { key, .. } | ReadOp::SizeOf { key, .. } => {
                        !self.written_since_reopen.contains(&(ks, keys[*key as usize].clone())) && self.reopened
                    }
                    _ => false,
                };
                viol!(
                    if after_reopen { "filter-point-scan-after-reopen" } else { "filter-point-scan" },
                    "filtered keyspace {:?}: {r:?} gives {} but the scan implies {}",
                    self.cfg.names[ks as usize],
                    real.brief(),
                    want.brief()
                );
            }
        }
        Ok(())
    }

    /// Explains a content difference after a reopen: which write produced a value that should
    /// not be there (diagnostic suffix used to tell known findings from new violations)
    fn classify_diff(&self, ks: KsIdx, real: &[(Vec<u8>, Vec<u8>)], want: &[(Vec<u8>, Vec<u8>)]) -> String {
        let rm: Map = real.iter().cloned().collect();
        let wm: Map = want.iter().cloned().collect();
        let mut out = String::new();
        for (k, rv) in &rm {
            if wm.get(k) == Some(rv) {
                continue;
            }
            let Some(h) = self.key_hist.get(&(ks, k.clone())) else { continue };
            // where does the unexpected value come from?
            let origin = h.iter().rev().find(|e| e.value.as_ref() == Some(rv));
            let last = h.last();
            if let (Some(o), Some(l)) = (origin, last) {
                if o.journaled && l.ingested && l.step > o.step {
                    let maint_after = self.maint_steps.iter().any(|s| *s > l.step);
                    if l.value.is_none() && maint_after {
                        out.push_str(&format!(" [stale-journal-record-after-ingested-tombstone-gc key={}]", show(k)));
                    } else {
                        out.push_str(&format!(" [stale-journal-record-superseded-by-ingestion key={}]", show(k)));
                    }
                } else {
                    out.push_str(&format!(" [unexpected value of key {} written at step {}]", show(k), o.step));
                }
            }
        }
        for k in wm.keys() {
            if !rm.contains_key(k) {
                out.push_str(&format!(" [missing key {}]", show(k)));
            }
        }
        out
    }
}
