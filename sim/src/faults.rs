//! Fault models on top of the libc seam: process-crash states (directory copies at classified
//! calls, optionally with a torn write), power-loss states (every file reverted to its last
//! synced image), and injected I/O errors.

use crate::case::*;
use crate::exec::Stats;
use crate::fsutil;
use crate::interpose::{self, Action, Call, Kind};
use crate::model::{Map, State};
use std::collections::BTreeMap;
use std::path::{Path, PathBuf};
use std::sync::{Arc, Mutex};

#[derive(Clone, Debug)]
pub struct Snap {
    pub dir: PathBuf,
    pub call: u32,
    pub kind: String,
    pub desc: String,
    /// torn split (bytes of the pending write that reached the file)
    pub torn: Option<usize>,
}

#[derive(Clone, Debug, Default)]
pub struct IoState {
    pub seen: u32,
    pub fired_at_call: Option<u32>,
    pub disk_full: bool,
    pub fired_desc: String,
}

pub struct Mon {
    pub live: PathBuf,
    pub scratch: PathBuf,
    pub calls: u32,
    pub hash: u64,
    pub fault: Fault,
    pub enabled: bool,
    pub snaps: Vec<Snap>,
    pub stats: Stats,
    pub io: IoState,
    /// inode -> (image file, len) of the last synced content
    pub images: BTreeMap<u64, PathBuf>,
    pub image_seq: u64,
    pub rng: crate::rng::Rng,
    /// journal unlinks seen: (call index, path)
    pub jnl_unlinks: Vec<(u32, String)>,
    pub log: Vec<String>,
    pub keep_log: bool,
    /// C10: take a crash state right after every unlink of a journal file
    pub after_jnl_unlink: bool,
}

pub type SharedMon = Arc<Mutex<Mon>>;

fn is_journal(rel: &str) -> bool {
    rel.ends_with(".jnl") && !rel.contains('/')
}

fn norm(rel: &str) -> String {
    // temp file names are random but irrelevant
    if let Some(i) = rel.rfind("/.tmp") {
        return format!("{}/.tmp#", &rel[..i]);
    }
    if rel.starts_with(".tmp") {
        return ".tmp#".into();
    }
    rel.to_string()
}

impl Mon {
    pub fn new(live: &Path, scratch: &Path, fault: Fault, seed: u64) -> SharedMon {
        Arc::new(Mutex::new(Mon {
            live: live.to_path_buf(),
            scratch: scratch.to_path_buf(),
            calls: 0,
            hash: 0,
            fault,
            enabled: false,
            snaps: vec![],
            stats: Stats::default(),
            io: IoState::default(),
            images: BTreeMap::new(),
            image_seq: 0,
            rng: crate::rng::Rng::stream(seed, "faults"),
            jnl_unlinks: vec![],
            log: vec![],
            keep_log: false,
            after_jnl_unlink: false,
        }))
    }

    fn want_point(&self, k: u32) -> bool {
        match &self.fault {
            Fault::Crash { points, .. } | Fault::Power { points, .. } => match points {
                None => true,
                Some(p) => p.contains(&k),
            },
            _ => false,
        }
    }

    fn snapshot_crash(&mut self, c: &Call, k: u32) {
        let dir = self.scratch.join(format!("snap-{k}"));
        if fsutil::copy_tree(&self.live, &dir).is_err() {
            self.stats.inc("snapshot_copy_failed");
            return;
        }
        self.stats.inc("crash_states");
        self.snaps.push(Snap {
            dir,
            call: k,
            kind: "crash".into(),
            desc: format!("before {} {}", c.kind.name(), norm(c.rel)),
            torn: None,
        });
        let torn = matches!(self.fault, Fault::Crash { torn: true, .. });
        if torn && c.kind == Kind::Write && c.data.len() > 1 {
            let n = c.data.len();
            // every byte offset of every journal layout is swept by C03; here the splits of the
            // writes as they actually occurred are sampled
            // (drawn from a generator keyed by the call index: the replay of one narrowed fault
            // point must see the same splits as the sweep did)
            let mut prng = self.point_rng(k);
            let mut splits: Vec<usize> = if is_journal(c.rel) {
                let mut v: Vec<usize> = (0..3).map(|_| 1 + prng.usize(n - 1)).collect();
                v.extend([1, n - 1, n / 2]);
                v
            } else {
                vec![1 + prng.usize(n - 1)]
            };
            splits.sort_unstable();
            splits.dedup();
            splits.retain(|j| *j >= 1 && *j < n);
            for j in splits {
                let dir = self.scratch.join(format!("snap-{k}-t{j}"));
                if fsutil::copy_tree(&self.live, &dir).is_err() {
                    continue;
                }
                let target = dir.join(c.rel);
                let ok = interpose::bypass(|| -> std::io::Result<()> {
                    use std::os::unix::fs::FileExt;
                    let f = std::fs::OpenOptions::new().write(true).open(&target)?;
                    f.write_all_at(&c.data[..j], c.offset)?;
                    Ok(())
                });
                if ok.is_err() {
                    fsutil::remove_tree(&dir);
                    continue;
                }
                self.stats.inc("crash_torn_states");
                self.snaps.push(Snap {
                    dir,
                    call: k,
                    kind: "torn".into(),
                    desc: format!("torn write {}/{} bytes of {}", j, n, norm(c.rel)),
                    torn: Some(j),
                });
            }
        }
    }

    /// Power-loss state: the live tree with every regular file reverted to its last synced image
    /// Power-loss state of the directory as it is right now (used outside of a libc call)
    pub fn power_state_now(&mut self, label: &str) -> Option<Snap> {
        let before = self.snaps.len();
        let k = self.calls;
        self.snapshot_power_desc(format!("power loss {label}"), k.wrapping_add(1_000_000), 0);
        if self.snaps.len() > before {
            self.snaps.pop()
        } else {
            None
        }
    }

    /// Generator for the random choices at fault point `k` (independent of how many other points
    /// were taken before)
    fn point_rng(&self, k: u32) -> crate::rng::Rng {
        let mut r = self.rng.clone();
        let base = r.next();
        crate::rng::Rng::new(crate::rng::mix(base ^ (u64::from(k) << 20) ^ 0x706f_696e_74))
    }

    fn snapshot_power(&mut self, c: &Call, k: u32, variant: u8) {
        self.snapshot_power_desc(format!("power loss before {} {}", c.kind.name(), norm(c.rel)), k, variant);
    }

    fn snapshot_power_desc(&mut self, desc: String, k: u32, variant: u8) {
        let dir = self.scratch.join(format!("power-{k}"));
        let live = self.live.clone();
        let files = fsutil::list_files(&live);
        let images = self.images.clone();
        let mut survivors = 0u64;
        let mut rng = self.point_rng(k);
        let res = interpose::bypass(|| -> std::io::Result<()> {
            std::fs::create_dir_all(&dir)?;
            for rel in &files {
                let to = dir.join(rel);
                if rel.ends_with('/') {
                    std::fs::create_dir_all(&to)?;
                    continue;
                }
                if let Some(p) = to.parent() {
                    std::fs::create_dir_all(p)?;
                }
                let from = live.join(rel);
                let ino = fsutil::inode_of(&from);
                match ino.and_then(|i| images.get(&i)) {
                    Some(img) => {
                        fsutil::sparse_copy(img, &to)?;
                        if variant >= 1 {
                            // part of the unsynced tail survives as well (still no reordering
                            // across a sync): copy a prefix of the bytes written since the image
                            let img_len = std::fs::metadata(img)?.len();
                            let live_valid = fsutil::valid_len(&from);
                            let img_valid = fsutil::valid_len(img);
                            if live_valid > img_valid && rng.chance(1, 2) {
                                let extra = rng.range(1, live_valid - img_valid);
                                use std::os::unix::fs::FileExt;
                                let src = std::fs::File::open(&from)?;
                                let mut buf = vec![0u8; extra as usize];
                                src.read_exact_at(&mut buf, img_valid)?;
                                let dst = std::fs::OpenOptions::new().write(true).open(&to)?;
                                dst.write_all_at(&buf, img_valid)?;
                                if img_valid + extra > img_len {
                                    dst.set_len(img_valid + extra)?;
                                }
                                survivors += 1;
                            }
                        }
                    }
                    None => {
                        // never synced: directory entry exists, no data
                        std::fs::File::create(&to)?;
                    }
                }
            }
            Ok(())
        });
        if res.is_err() {
            self.stats.inc("snapshot_copy_failed");
            fsutil::remove_tree(&dir);
            return;
        }
        self.stats.inc("power_states");
        if survivors > 0 {
            self.stats.inc("power_states_with_surviving_tail");
        }
        self.snaps.push(Snap {
            dir,
            call: k,
            kind: "power".into(),
            desc,
            torn: None,
        });
    }

    fn io_matches(&self, c: &Call, target: &IoTarget) -> bool {
        match target {
            IoTarget::JournalWrite => c.kind == Kind::Write && is_journal(c.rel),
            IoTarget::JournalSync => c.kind.is_sync() && is_journal(c.rel),
            IoTarget::JournalCreate => c.kind == Kind::Create && is_journal(c.rel),
            IoTarget::JournalTruncate => c.kind == Kind::Truncate && is_journal(c.rel),
            IoTarget::DirSync => c.kind.is_sync() && c.rel.is_empty(),
            IoTarget::MetaDuringDelete => {
                IN_DELETE.load(std::sync::atomic::Ordering::SeqCst)
                    && c.rel.starts_with("keyspaces/0/")
                    && matches!(c.kind, Kind::Create | Kind::Write | Kind::Fsync | Kind::Fdatasync | Kind::Rename | Kind::Mkdir)
            }
        }
    }

    pub fn on_call(&mut self, c: &Call) -> Action {
        if !self.enabled {
            return Action::Pass;
        }
        let k = self.calls;
        self.calls += 1;
        self.hash = crate::rng::mix(self.hash ^ crate::rng::hash_str(c.kind.name()) ^ crate::rng::hash_str(&norm(c.rel)) ^ (c.data.len() as u64) << 7);
        if self.keep_log {
            self.log.push(format!("{k}: {} {} len={} off={}", c.kind.name(), norm(c.rel), c.data.len(), c.offset));
        }
        self.stats.inc(&format!("call_{}", c.kind.name()));
        if c.kind == Kind::Unlink && is_journal(c.rel) {
            self.jnl_unlinks.push((k, c.rel.to_string()));
            self.stats.inc("probe_journal_unlinked");
            if self.after_jnl_unlink {
                // the directory as it is immediately after this unlink
                let dir = self.scratch.join(format!("snap-{k}-unlinked"));
                if fsutil::copy_tree(&self.live, &dir).is_ok() {
                    let gone = dir.join(c.rel);
                    interpose::bypass(|| std::fs::remove_file(&gone).ok());
                    self.stats.inc("crash_states_after_journal_unlink");
                    self.snaps.push(Snap {
                        dir,
                        call: k,
                        kind: "crash".into(),
                        desc: format!("crash right after unlink of {}", c.rel),
                        torn: None,
                    });
                }
            }
        }
        if c.kind == Kind::Create && is_journal(c.rel) {
            self.stats.inc("probe_journal_created");
        }
        match self.fault.clone() {
            Fault::Crash { .. } => {
                if self.want_point(k) {
                    self.snapshot_crash(c, k);
                }
                Action::Pass
            }
            Fault::Power { variant, .. } => {
                if self.want_point(k) {
                    self.snapshot_power(c, k, variant);
                }
                Action::Pass
            }
            Fault::Io { kind, target, n, persistent } => {
                if self.io.disk_full && persistent && c.kind == Kind::Write && is_journal(c.rel) {
                    self.stats.inc("fault_enospc_after_full");
                    return Action::Fail(libc::ENOSPC);
                }
                if self.io_matches(c, &target) {
                    self.io.seen += 1;
                    if Some(self.io.seen) == n && self.io.fired_at_call.is_none() {
                        self.io.fired_at_call = Some(k);
                        self.io.fired_desc = format!("{:?} on {} {} (#{} of its kind)", kind, c.kind.name(), norm(c.rel), self.io.seen);
                        return match kind {
                            IoKind::Eio => {
                                self.stats.inc("fault_eio");
                                Action::Fail(libc::EIO)
                            }
                            IoKind::Enospc => {
                                self.stats.inc("fault_enospc");
                                self.io.disk_full = true;
                                Action::Fail(libc::ENOSPC)
                            }
                            IoKind::Short(j) => {
                                self.stats.inc("fault_short_write");
                                self.io.disk_full = true;
                                if c.kind == Kind::Write && c.data.len() > 1 {
                                    Action::Short((j as usize % (c.data.len() - 1)) + 1)
                                } else {
                                    Action::Fail(libc::ENOSPC)
                                }
                            }
                        };
                    }
                }
                Action::Pass
            }
            _ => Action::Pass,
        }
    }

    /// Called after a successful fsync/fdatasync: remember the file's content as durable
    pub fn on_synced(&mut self, rel: &str) {
        if !matches!(self.fault, Fault::Power { .. }) {
            return;
        }
        let p = self.live.join(rel);
        let is_file = interpose::bypass(|| p.is_file());
        if !is_file {
            return;
        }
        let Some(ino) = fsutil::inode_of(&p) else { return };
        self.image_seq += 1;
        let img = self.scratch.join(format!("img-{}", self.image_seq));
        if fsutil::sparse_copy(&p, &img).is_ok() {
            if let Some(old) = self.images.insert(ino, img) {
                interpose::bypass(|| std::fs::remove_file(old).ok());
            }
            self.stats.inc("sync_images");
        }
    }
}

/// Installs the monitor as the interposer's handler for `live`
pub fn install(mon: &SharedMon) {
    let live = mon.lock().unwrap().live.to_string_lossy().into_owned();
    let m1 = mon.clone();
    interpose::track(&live, Box::new(move |c| m1.lock().unwrap().on_call(c)));
    let m2 = mon.clone();
    *interpose::SYNC_DONE.lock().unwrap() = Some(Box::new(move |rel, _fd| m2.lock().unwrap().on_synced(rel)));
}

pub fn uninstall() {
    interpose::untrack();
    *interpose::SYNC_DONE.lock().unwrap() = None;
}

/// set by the SEQ engine while `Database::delete_keyspace` runs (fault target MetaDuringDelete)
pub static IN_DELETE: std::sync::atomic::AtomicBool = std::sync::atomic::AtomicBool::new(false);

/// Logical content of a database directory as seen through the public API after opening it.
pub fn read_dir_state(dir: &Path, cfg: &Cfg) -> Result<BTreeMap<KsIdx, Map>, String> {
    use fjall::Readable;
    let mut inst = crate::inst::Instance::open_with(dir, cfg, cfg.journal_lz4, 0)?;
    let names: Vec<String> = inst.db.list_keyspace_names().iter().map(|s| s.to_string()).collect();
    let mut out = BTreeMap::new();
    for n in names {
        let Some(i) = cfg.names.iter().position(|x| *x == n) else {
            return Err(format!("unknown keyspace name {n:?} appeared"));
        };
        inst.open_ks(cfg, i, &cfg.opts[i])?;
        let k = inst.k(i as u8).unwrap().clone();
        let mut m = Map::new();
        for g in k.iter() {
            let (key, v) = g.into_inner().map_err(|e| format!("scan error: {e:?}"))?;
            m.insert(key.to_vec(), v.to_vec());
        }
        // reverse scan and point reads must agree with the forward scan
        let mut rev: Vec<Vec<u8>> = vec![];
        for g in k.iter().rev() {
            let (key, _) = g.into_inner().map_err(|e| format!("scan error: {e:?}"))?;
            rev.push(key.to_vec());
        }
        rev.reverse();
        if rev != m.keys().cloned().collect::<Vec<_>>() {
            return Err(format!("reverse scan of {n:?} disagrees with forward scan"));
        }
        for key in &cfg.keys {
            let g = k.get(key).map_err(|e| format!("get error: {e:?}"))?.map(|v| v.to_vec());
            if g.as_ref() != m.get(key) {
                return Err(format!(
                    "point read of {} in {n:?} gives {:?} but scan gives {:?}",
                    crate::model::show(key),
                    g.as_ref().map(|x| crate::model::show(x)),
                    m.get(key).map(|x| crate::model::show(x))
                ));
            }
        }
        let snap = inst.db.snapshot();
        let cnt = snap.len(&k).map_err(|e| format!("{e:?}"))?;
        if cnt != m.len() {
            return Err(format!("snapshot len {cnt} != scan len {}", m.len()));
        }
        out.insert(i as u8, m);
    }
    Ok(out)
}

/// Life goes on after a recovery: opens the (already recovered) directory again, overwrites one
/// recovered key, removes another and adds a new key in every keyspace (single writes, then one
/// batch across all keyspaces), drops the database and returns the content expected after the
/// next open. Everything written here is acknowledged under the default persist mode, so the
/// next open must show exactly `recovered` + these writes (C02 / C03 / C11: writes after a
/// recovery are recoverable again and supersede what was recovered).
pub fn write_after_recovery(dir: &Path, cfg: &Cfg, recovered: &BTreeMap<KsIdx, Map>, salt: u64) -> Result<BTreeMap<KsIdx, Map>, String> {
    let mut inst = crate::inst::Instance::open_with(dir, cfg, cfg.journal_lz4, 0)?;
    // a directory recovered with many sealed memtables makes writes wait for flushes: the SEQ
    // stall hook must step THIS instance's queue
    struct Restore(Option<fjall::Database>);
    impl Drop for Restore {
        fn drop(&mut self) {
            crate::hooks::swap_seq_db(self.0.take());
        }
    }
    let _restore = Restore(crate::hooks::swap_seq_db(Some(inst.db.clone())));
    let mut expect = recovered.clone();
    let mut handles = vec![];
    for (i, m) in recovered {
        inst.open_ks(cfg, *i as usize, &cfg.opts[*i as usize])?;
        let k = inst.k(*i).unwrap().clone();
        let e = expect.get_mut(i).unwrap();
        let keys: Vec<Vec<u8>> = m.keys().cloned().collect();
        if let Some(k0) = keys.first() {
            let v = format!("after-recovery-overwrite-{salt}").into_bytes();
            k.insert(k0.clone(), v.clone()).map_err(|e| format!("insert after recovery: {e:?}"))?;
            e.insert(k0.clone(), v);
        }
        if keys.len() > 1 {
            let kl = keys.last().unwrap();
            k.remove(kl.clone()).map_err(|e| format!("remove after recovery: {e:?}"))?;
            e.remove(kl);
        }
        handles.push((*i, k));
    }
    // one batch across every keyspace; big enough to leave the journal's write buffer in pieces
    let mut b = inst.db.batch();
    for (i, k) in &handles {
        let key = b"\xff\xff\xff~after".to_vec();
        let mut v = format!("after-recovery-batch-{salt}-").into_bytes();
        v.resize(if salt % 3 == 0 { 9000 } else { 40 }, b'0' + (*i % 10));
        b.insert(k, key.clone(), v.clone());
        expect.get_mut(i).unwrap().insert(key, v);
    }
    if !handles.is_empty() {
        b.commit().map_err(|e| format!("batch after recovery: {e:?}"))?;
    }
    drop(handles);
    drop(_restore);
    drop(inst);
    Ok(expect)
}

pub fn state_maps(s: &State) -> BTreeMap<KsIdx, Map> {
    s.ks.iter().map(|(k, v)| (*k, v.map.clone())).collect()
}

pub fn brief_maps(m: &BTreeMap<KsIdx, Map>) -> String {
    let mut s = String::new();
    for (i, k) in m {
        s.push_str(&format!("ks{i}{{"));
        for (a, b) in k {
            s.push_str(&format!("{}={} ", crate::model::show(a), crate::model::show(b)));
        }
        s.push_str("} ");
    }
    s
}
