//! fjsim: deterministic simulation of fjall with fault injection.
//!
//!   fjsim run --prop C01 --tier quick --seed 1 --from 0 --to 100 --out summary.json
//!   fjsim replay <replay.json>
//!   fjsim minimize <case-or-replay.json> <out-replay.json>
//!   fjsim gen --prop C01 --tier quick --seed 1 --index 7

mod case;
mod exec;
mod faults;
mod fsutil;
mod gen;
mod hooks;
mod inst;
mod interpose;
mod lin;
mod minimize;
mod model;
mod props;
mod rng;
mod sched;
mod serial;
mod thr;

use case::{Case, Replay};
use gen::Tier;
use serde_json::json;
use std::collections::{BTreeMap, BTreeSet};
use std::path::{Path, PathBuf};
use std::sync::Mutex;

pub static LAST_PANIC: Mutex<Option<(String, String)>> = Mutex::new(None);

fn install_panic_hook() {
    std::panic::set_hook(Box::new(|info| {
        let loc = info
            .location()
            .map(|l| format!("{}:{}", l.file(), l.line()))
            .unwrap_or_default();
        let msg = info
            .payload()
            .downcast_ref::<String>()
            .cloned()
            .or_else(|| info.payload().downcast_ref::<&str>().map(|s| s.to_string()))
            .unwrap_or_else(|| "panic".to_string());
        if std::env::var_os("FJSIM_DEBUG").is_some() {
            eprintln!("panic at {loc}: {msg}");
        }
        *LAST_PANIC.lock().unwrap() = Some((loc, msg));
    }));
}

pub fn case_seed(seed: u64, prop: &str, i: u64) -> u64 {
    rng::mix(rng::mix(seed) ^ rng::hash_str(prop) ^ rng::mix(i.wrapping_mul(0x9E37)))
}

pub struct CaseResult {
    pub outcome: props::Outcome,
}

/// Runs one case in a fresh scratch directory, converting panics into outcomes.
pub fn run_one(case: &Case, tag: &str) -> props::Outcome {
    let root = fsutil::scratch_root();
    let dir = root.join(tag);
    fsutil::remove_tree(&dir);
    interpose::bypass(|| std::fs::create_dir_all(&root).ok());
    interpose::set_random_seed(case.seed);
    *LAST_PANIC.lock().unwrap() = None;
    let c = case.clone();
    let d = dir.clone();
    // every case runs on a fresh OS thread: std's RandomState keys are thread-local and seeded
    // lazily from getrandom (interposed, reset above), so hash iteration order inside fjall
    // is a function of the case seed and not of what ran earlier in this process
    let (tx, rx) = std::sync::mpsc::channel::<()>();
    let h = std::thread::Builder::new()
        .name("fjsim:case".into())
        .stack_size(32 << 20)
        .spawn(move || {
            let o = props::run_case(&c, d);
            let _ = tx.send(());
            o
        })
        .expect("spawn case thread");
    // watchdog: a case that neither finishes nor trips the scheduler's own detectors is a
    // harness problem (or a hang the simulator could not attribute); never wait forever
    let is_thr = case.engine == case::Engine::Thr;
    let limit: u64 = std::env::var("FJSIM_CASE_TIMEOUT").ok().and_then(|s| s.parse().ok()).unwrap_or(if is_thr { 60 } else { 180 });
    if let Err(std::sync::mpsc::RecvTimeoutError::Timeout) = rx.recv_timeout(std::time::Duration::from_secs(limit)) {
        if is_thr {
            // Every wait on a fjall-level lock goes through a probe and every sleep through a stall
            // hook, so the scheduler reports blocked threads itself ("no-progress"). A scheduled
            // run that does not end means a thread waits IN THE KERNEL for a lock whose owner is
            // parked - a lock acquired in an order (or held over a region) the hooks do not
            // cover: the threads dead-lock. The process cannot go on (threads leaked, scheduler
            // state stuck): report and abort; the driver attributes the abort to this case.
            println!(
                "no-progress: the scheduled run did not finish within {limit} s: a thread is blocked in the kernel on a lock held by a parked thread (lock order / lock scope outside the probed sites): dead-lock; scheduler: {}",
                sched::describe()
            );
            use std::io::Write;
            let _ = std::io::stdout().flush();
            std::process::abort();
        }
        let mut o = props::Outcome::ok(exec::Stats::default(), 0);
        o.harness_error = Some(format!("case did not finish within {limit} s (thread leaked)"));
        std::mem::forget(h);
        return o;
    }
    let r = h.join();
    let out = match r {
        Ok(o) => o,
        Err(_) => {
            let (loc, msg) = LAST_PANIC.lock().unwrap().clone().unwrap_or_default();
            interpose::untrack();
            hooks::set_seq_db(None);
            let mut o = props::Outcome::ok(exec::Stats::default(), 0);
            if loc.starts_with("src/") || msg.starts_with("fjsim:") {
                o.harness_error = Some(format!("harness panic at {loc}: {msg}"));
            } else {
                o.violation = Some(exec::Violation::new(
                    "panic",
                    format!("panic in library code at {loc}: {msg}"),
                ));
            }
            o
        }
    };
    fsutil::remove_tree(&dir);
    out
}

fn arg(args: &[String], name: &str) -> Option<String> {
    args.iter().position(|a| a == name).and_then(|i| args.get(i + 1).cloned())
}

fn tier_of(s: &str) -> Tier {
    if s == "thorough" {
        Tier::Thorough
    } else {
        Tier::Quick
    }
}

fn load_case(path: &str) -> (Case, Option<Replay>) {
    let text = std::fs::read_to_string(path).unwrap_or_else(|e| {
        eprintln!("cannot read {path}: {e}");
        std::process::exit(2);
    });
    if let Ok(r) = serde_json::from_str::<Replay>(&text) {
        return (r.case.clone(), Some(r));
    }
    match serde_json::from_str::<Case>(&text) {
        Ok(c) => (c, None),
        Err(e) => {
            eprintln!("cannot parse {path}: {e}");
            std::process::exit(2);
        }
    }
}

fn cmd_run(args: &[String]) -> i32 {
    let prop = arg(args, "--prop").expect("--prop");
    let tier = tier_of(&arg(args, "--tier").unwrap_or_else(|| "quick".into()));
    let seed: u64 = arg(args, "--seed").and_then(|s| s.parse().ok()).unwrap_or(1);
    let from: u64 = arg(args, "--from").and_then(|s| s.parse().ok()).unwrap_or(0);
    let to: u64 = arg(args, "--to").and_then(|s| s.parse().ok()).unwrap_or(10);
    let stride: u64 = arg(args, "--stride").and_then(|s| s.parse().ok()).unwrap_or(1);
    let out = arg(args, "--out");
    let deadline: Option<f64> = arg(args, "--deadline").and_then(|s| s.parse().ok());
    let recheck_every: u64 = arg(args, "--recheck").and_then(|s| s.parse().ok()).unwrap_or(50);
    let start = std::time::Instant::now();

    let mut evaluations = 0u64;
    let mut cases = 0u64;
    let mut shapes: BTreeSet<u64> = BTreeSet::new();
    let mut stats = exec::Stats::default();
    let mut classes: BTreeMap<String, u64> = BTreeMap::new();
    let mut samples = vec![];
    let mut hashes = vec![];
    let mut violations = vec![];
    let mut harness_errors = vec![];
    let mut rechecks = 0u64;
    let mut skipped = 0u64;
    let mut stopped_at: Option<u64> = None;

    let mut i = from;
    while i < to {
        if let Some(d) = deadline {
            if start.elapsed().as_secs_f64() > d {
                skipped = (to - i).div_ceil(stride);
                break;
            }
        }
        let cs = case_seed(seed, &prop, i);
        let case = props::gen_case(&prop, tier, cs);
        if let Some(p) = &out {
            // progress marker: lets the driver attribute a process abort to this case
            interpose::bypass(|| std::fs::write(format!("{p}.cur"), format!("{i}")).ok());
            if cases % 20 == 0 {
                write_summary(&out, &prop, seed, from, to, stride, cases, evaluations, &shapes, &stats, &classes, &samples, &hashes, &violations, &harness_errors, rechecks, skipped, Some(i), start.elapsed().as_secs_f64(), false);
            }
        }
        let o = run_one(&case, &format!("c{i}"));
        cases += 1;
        evaluations += o.evals;
        if o.nontrivial {
            shapes.insert(o.shape);
        }
        stats.merge(&o.stats);
        *classes.entry(case.class.clone()).or_insert(0) += 1;
        if samples.len() < 2 && o.nontrivial {
            samples.push(json!({"index": i, "case_seed": cs, "class": case.class, "program": case.program.iter().take(40).map(|o| format!("{o:?}")).collect::<Vec<_>>(), "threads": case.threads.iter().map(|t| t.iter().map(|o| format!("{o:?}")).collect::<Vec<_>>()).collect::<Vec<_>>(), "fault": format!("{:?}", case.fault), "result": if o.violation.is_some() {"violation"} else {"held"}}));
        }
        hashes.push((i, o.hash));
        let mut stop = false;
        if let Some(h) = &o.harness_error {
            harness_errors.push(json!({"index": i, "case_seed": cs, "error": h}));
            stop = true;
        }
        if let Some(v) = &o.violation {
            let mut c = case.clone();
            if let Some(s) = &o.schedule {
                c.schedule = Some(s.clone());
            }
            if let Some(f) = &o.narrowed {
                c.fault = f.clone();
            }
            violations.push(json!({"index": i, "case_seed": cs, "clause": v.clause, "detail": v.detail, "op_index": v.op_index, "case": c}));
            if v.clause == "panic" || case.engine == case::Engine::Thr {
                stop = true;
            }
        } else if o.harness_error.is_none() && recheck_every > 0 && (i / stride) % recheck_every == 0 {
            // determinism re-check: same case again, same observable hash
            let o2 = run_one(&case, &format!("c{i}r"));
            rechecks += 1;
            // (a sweep that was cut short by its time bound is not comparable)
            let cut_short = |x: &props::Outcome| x.stats.c.keys().any(|k| k.ends_with("_cut_short_by_time"));
            if cut_short(&o) || cut_short(&o2) {
                // not counted as a determinism check
                rechecks -= 1;
            } else if o2.hash != o.hash || o2.violation.is_some() != o.violation.is_some() {
                harness_errors.push(json!({"index": i, "case_seed": cs, "error": format!("non-deterministic: hash {} vs {}", o.hash, o2.hash)}));
            }
        }
        i += stride;
        if stop {
            stopped_at = Some(i);
            break;
        }
    }
    fsutil::remove_tree(&fsutil::scratch_root());
    write_summary(&out, &prop, seed, from, to, stride, cases, evaluations, &shapes, &stats, &classes, &samples, &hashes, &violations, &harness_errors, rechecks, skipped, stopped_at, start.elapsed().as_secs_f64(), true);
    0
}

#[allow(clippy::too_many_arguments)]
fn write_summary(
    out: &Option<String>, prop: &str, seed: u64, from: u64, to: u64, stride: u64, cases: u64, evaluations: u64,
    shapes: &BTreeSet<u64>, stats: &exec::Stats, classes: &BTreeMap<String, u64>, samples: &[serde_json::Value],
    hashes: &[(u64, u64)], violations: &[serde_json::Value], harness_errors: &[serde_json::Value],
    rechecks: u64, skipped: u64, stopped_at: Option<u64>, wall: f64, complete: bool,
) {
    let summary = json!({
        "prop": prop,
        "seed": seed,
        "from": from,
        "to": to,
        "stride": stride,
        "cases": cases,
        "evaluations": evaluations,
        "shapes": shapes.iter().collect::<Vec<_>>(),
        "stats": stats.c,
        "classes": classes,
        "samples": samples,
        "hashes": hashes,
        "violations": violations,
        "harness_errors": harness_errors,
        "rechecks": rechecks,
        "skipped": skipped,
        "stopped_at": stopped_at,
        "wall_s": wall,
        "complete": complete,
    });
    let text = serde_json::to_string(&summary).unwrap();
    match out {
        Some(p) => {
            let tmp = format!("{p}.tmp");
            interpose::bypass(|| {
                std::fs::write(&tmp, text).unwrap();
                std::fs::rename(&tmp, p).unwrap();
            });
        }
        None => {
            if complete {
                println!("{text}");
            }
        }
    }
}

fn cmd_replay(args: &[String]) -> i32 {
    let path = &args[0];
    let (case, rep) = load_case(path);
    let mut o = run_one(&case, "replay");
    // Pinned THR regressions: an explicit schedule is a positional list of choices and goes stale
    // when hook sites are added. `--search N` therefore also runs the case under N freshly seeded
    // (fair) schedules; a "no-progress" verdict that only the stale explicit schedule produces is
    // not trusted (an unfair schedule proves nothing), any other verdict stands.
    let search: u64 = arg(args, "--search").and_then(|s| s.parse().ok()).unwrap_or(0);
    if search > 0 && case.engine == case::Engine::Thr && o.harness_error.is_none() {
        let explicit_no_progress = o.violation.as_ref().is_some_and(|v| v.clause == "no-progress") && case.schedule.is_some();
        if o.violation.is_none() || explicit_no_progress {
            let mut found = None;
            for k in 0..search {
                let mut c = case.clone();
                c.schedule = None;
                c.cfg.sched_seed = rng::mix(case.cfg.sched_seed ^ k.wrapping_mul(0x9E37_79B9));
                c.cfg.stickiness = [0u8, 30, 50, 70, 90][(k % 5) as usize];
                let o2 = run_one(&c, "replay");
                if o2.harness_error.is_some() {
                    continue;
                }
                if o2.violation.is_some() {
                    found = Some(o2);
                    break;
                }
            }
            match found {
                Some(o2) => o = o2,
                None => {
                    if explicit_no_progress {
                        println!("NOTE: the recorded schedule is stale (no-progress under it, but none of {search} seeded schedules fails)");
                        o.violation = None;
                    }
                }
            }
        }
    }
    fsutil::remove_tree(&fsutil::scratch_root());
    if let Some(h) = o.harness_error {
        println!("HARNESS-ERROR {h}");
        return 2;
    }
    match o.violation {
        Some(v) => {
            println!("REPRODUCED property={} clause={} detail={}", case.prop, v.clause, v.detail);
            if let Some(r) = rep {
                if r.clause != v.clause {
                    println!("NOTE: replay file recorded clause {} but this run violated {}", r.clause, v.clause);
                }
            }
            1
        }
        None => {
            println!("HELD property={} (no violation on replay)", case.prop);
            0
        }
    }
}

fn cmd_minimize(args: &[String]) -> i32 {
    let (case, _) = load_case(&args[0]);
    let out = &args[1];
    let budget: f64 = arg(args, "--budget").and_then(|s| s.parse().ok()).unwrap_or(60.0);
    match minimize::minimize(case, budget) {
        Some(rep) => {
            std::fs::write(out, serde_json::to_string_pretty(&rep).unwrap()).unwrap();
            println!("MINIMIZED clause={} ops={} -> {}", rep.clause, rep.case.program.len() + rep.case.threads.iter().map(Vec::len).sum::<usize>(), out);
            0
        }
        None => {
            println!("NOT-REPRODUCED");
            3
        }
    }
}

fn cmd_gen(args: &[String]) -> i32 {
    let prop = arg(args, "--prop").expect("--prop");
    let tier = tier_of(&arg(args, "--tier").unwrap_or_else(|| "quick".into()));
    let seed: u64 = arg(args, "--seed").and_then(|s| s.parse().ok()).unwrap_or(1);
    let index: u64 = arg(args, "--index").and_then(|s| s.parse().ok()).unwrap_or(0);
    let case = props::gen_case(&prop, tier, case_seed(seed, &prop, index));
    println!("{}", serde_json::to_string_pretty(&case).unwrap());
    0
}

fn main() {
    let args: Vec<String> = std::env::args().skip(1).collect();
    if args.is_empty() {
        eprintln!("usage: fjsim run|replay|minimize|gen ...");
        std::process::exit(2);
    }
    install_panic_hook();
    hooks::install();
    let _ = Path::new("/");
    let _: Option<PathBuf> = None;
    let code = match args[0].as_str() {
        "run" => cmd_run(&args[1..]),
        "replay" => cmd_replay(&args[1..]),
        "minimize" => cmd_minimize(&args[1..]),
        "gen" => cmd_gen(&args[1..]),
        "budget" => {
            let prop = arg(&args, "--prop").expect("--prop");
            let tier = tier_of(&arg(&args, "--tier").unwrap_or_else(|| "quick".into()));
            println!("{}", props::budget(&prop, tier));
            0
        }
        _ => {
            eprintln!("unknown command");
            2
        }
    };
    std::process::exit(code);
}
