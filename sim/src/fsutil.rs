//! Harness-side file helpers (always run with interposition bypassed by the caller or here).

use crate::interpose::bypass;
use std::fs;
use std::os::unix::fs::MetadataExt;
use std::os::unix::io::AsRawFd;
use std::path::{Path, PathBuf};

/// Copies the data extents of `src` into `dst` (sparse-aware) and sets the same length.
pub fn sparse_copy(src: &Path, dst: &Path) -> std::io::Result<()> {
    bypass(|| {
        let s = fs::File::open(src)?;
        let d = fs::OpenOptions::new()
            .create(true)
            .write(true)
            .truncate(true)
            .open(dst)?;
        let len = s.metadata()?.len();
        let sfd = s.as_raw_fd();
        let dfd = d.as_raw_fd();
        let mut pos: i64 = 0;
        let mut buf = vec![0u8; 1 << 16];
        loop {
            let data = unsafe { libc::lseek(sfd, pos, libc::SEEK_DATA) };
            if data < 0 {
                break;
            }
            let mut hole = unsafe { libc::lseek(sfd, data, libc::SEEK_HOLE) };
            if hole < 0 {
                hole = len as i64;
            }
            let mut off = data;
            while off < hole {
                let want = ((hole - off) as usize).min(buf.len());
                let n = unsafe { libc::pread(sfd, buf.as_mut_ptr().cast(), want, off) };
                if n <= 0 {
                    break;
                }
                let mut w = 0isize;
                while w < n {
                    let r = unsafe {
                        libc::syscall(
                            libc::SYS_pwrite64,
                            dfd,
                            buf.as_ptr().add(w as usize),
                            (n - w) as usize,
                            off + w as i64,
                        )
                    } as isize;
                    if r <= 0 {
                        return Err(std::io::Error::last_os_error());
                    }
                    w += r;
                }
                off += n as i64;
            }
            pos = hole;
            if pos >= len as i64 {
                break;
            }
        }
        let r = unsafe { libc::syscall(libc::SYS_ftruncate, dfd, len as i64) };
        if r != 0 {
            return Err(std::io::Error::last_os_error());
        }
        Ok(())
    })
}

/// Recursively copies a directory tree (sparse-aware). The lock file is copied as an empty file.
pub fn copy_tree(src: &Path, dst: &Path) -> std::io::Result<()> {
    bypass(|| {
        fs::create_dir_all(dst)?;
        let mut entries: Vec<_> = fs::read_dir(src)?.collect::<Result<_, _>>()?;
        entries.sort_by_key(|e| e.file_name());
        for e in entries {
            let ft = e.file_type()?;
            let to = dst.join(e.file_name());
            if ft.is_dir() {
                copy_tree(&e.path(), &to)?;
            } else if ft.is_file() {
                match sparse_copy(&e.path(), &to) {
                    Ok(()) => {}
                    // a file may vanish between readdir and open only if the tree is being
                    // mutated concurrently, which the simulator never allows
                    Err(err) => return Err(err),
                }
            }
        }
        Ok(())
    })
}

pub fn remove_tree(p: &Path) {
    bypass(|| {
        let _ = fs::remove_dir_all(p);
    });
}

/// All regular files below `root`, relative paths, sorted
pub fn list_files(root: &Path) -> Vec<String> {
    fn walk(root: &Path, dir: &Path, out: &mut Vec<String>) {
        if let Ok(rd) = fs::read_dir(dir) {
            let mut es: Vec<_> = rd.filter_map(Result::ok).collect();
            es.sort_by_key(|e| e.file_name());
            for e in es {
                let p = e.path();
                if p.is_dir() {
                    out.push(format!("{}/", p.strip_prefix(root).unwrap().display()));
                    walk(root, &p, out);
                } else {
                    out.push(p.strip_prefix(root).unwrap().display().to_string());
                }
            }
        }
    }
    bypass(|| {
        let mut out = vec![];
        walk(root, root, &mut out);
        out
    })
}

/// Content digest of a directory tree: names, sizes and data (not times).
pub fn tree_digest(root: &Path) -> u64 {
    bypass(|| {
        let mut h = 7u64;
        for rel in list_files(root) {
            h = crate::rng::hash_bytes(h, rel.as_bytes());
            if rel.ends_with('/') {
                continue;
            }
            let p = root.join(&rel);
            if let Ok(md) = fs::metadata(&p) {
                h = crate::rng::mix(h ^ md.len());
                // hash data extents only (journals are 64 MiB sparse)
                if let Ok(f) = fs::File::open(&p) {
                    let fd = f.as_raw_fd();
                    let len = md.len() as i64;
                    let mut pos = 0i64;
                    let mut buf = vec![0u8; 1 << 16];
                    loop {
                        let data = unsafe { libc::lseek(fd, pos, libc::SEEK_DATA) };
                        if data < 0 {
                            break;
                        }
                        let mut hole = unsafe { libc::lseek(fd, data, libc::SEEK_HOLE) };
                        if hole < 0 {
                            hole = len;
                        }
                        let mut off = data;
                        while off < hole {
                            let want = ((hole - off) as usize).min(buf.len());
                            let n = unsafe { libc::pread(fd, buf.as_mut_ptr().cast(), want, off) };
                            if n <= 0 {
                                break;
                            }
                            // skip zero blocks so that a materialised hole hashes like a hole
                            let chunk = &buf[..n as usize];
                            if chunk.iter().any(|b| *b != 0) {
                                h = crate::rng::mix(h ^ off as u64);
                                h = crate::rng::hash_bytes(h, chunk);
                            }
                            off += n as i64;
                        }
                        pos = hole;
                        if pos >= len {
                            break;
                        }
                    }
                }
            }
        }
        h
    })
}

pub fn inode_of(p: &Path) -> Option<u64> {
    bypass(|| fs::metadata(p).ok().map(|m| m.ino()))
}

/// Length of the non-zero prefix region of a journal file: end of the last data extent that
/// contains a non-zero byte.
pub fn valid_len(p: &Path) -> u64 {
    bypass(|| {
        let Ok(f) = fs::File::open(p) else { return 0 };
        let fd = f.as_raw_fd();
        let len = f.metadata().map(|m| m.len()).unwrap_or(0) as i64;
        let mut pos = 0i64;
        let mut last_nonzero = 0u64;
        let mut buf = vec![0u8; 1 << 16];
        loop {
            let data = unsafe { libc::lseek(fd, pos, libc::SEEK_DATA) };
            if data < 0 {
                break;
            }
            let mut hole = unsafe { libc::lseek(fd, data, libc::SEEK_HOLE) };
            if hole < 0 {
                hole = len;
            }
            let mut off = data;
            while off < hole {
                let want = ((hole - off) as usize).min(buf.len());
                let n = unsafe { libc::pread(fd, buf.as_mut_ptr().cast(), want, off) };
                if n <= 0 {
                    break;
                }
                for (i, b) in buf[..n as usize].iter().enumerate() {
                    if *b != 0 {
                        last_nonzero = (off as u64) + i as u64 + 1;
                    }
                }
                off += n as i64;
            }
            pos = hole;
            if pos >= len {
                break;
            }
        }
        last_nonzero
    })
}

pub fn scratch_root() -> PathBuf {
    let base = if Path::new("/dev/shm").is_dir() {
        PathBuf::from("/dev/shm")
    } else {
        std::env::temp_dir()
    };
    base.join(format!("fjsim-{}", std::process::id()))
}
