//! THR engine: client threads and fjall's own worker threads under the seeded baton scheduler.

use crate::case::*;
use crate::exec::{dur, read_keyspace, read_readable, Stats, TxRecord, Violation};
use crate::inst::Instance;
use crate::lin::{self, Cell, LEvent, LOp, Store};
use crate::model::{apply_updfn, derive_value, ReadResult, State, TxModel};
use crate::props::Outcome;
use crate::sched;
use fjall::{Database, Keyspace, Readable};
use std::collections::BTreeMap;
use std::path::PathBuf;
use std::sync::atomic::{AtomicI64, AtomicU64, Ordering};
use std::sync::{Arc, Mutex};

pub struct Shared {
    pub cfg: Cfg,
    pub db: Database,
    pub sw: Option<fjall::SingleWriterTxDatabase>,
    pub opt: Option<fjall::OptimisticTxDatabase>,
    pub ks: Vec<Option<Keyspace>>,
    pub sw_ks: Vec<Option<fjall::SingleWriterTxKeyspace>>,
    pub opt_ks: Vec<Option<fjall::OptimisticTxKeyspace>>,
    pub events: Mutex<Vec<LEvent>>,
    pub txlog: Mutex<Vec<TxRecord>>,
    pub stamp: AtomicU64,
    pub violation: Mutex<Option<Violation>>,
    pub stats: Mutex<Stats>,
    pub live_sw: AtomicI64,
    pub committed_incr: AtomicU64,
    /// fault runs: failing writes are recorded instead of being violations
    pub tolerate: bool,
    pub failed: Mutex<Vec<WriteRec>>,
    pub acked: Mutex<Vec<WriteRec>>,
    /// keyspace handles obtained by a thread itself (Database::keyspace while others do the same)
    pub dyn_ks: Mutex<BTreeMap<(usize, u8), Keyspace>>,
    pub created: Mutex<std::collections::BTreeSet<u8>>,
    pub deleted: Mutex<std::collections::BTreeSet<u8>>,
    /// highest visible seqno any client has seen at an op boundary
    pub max_visible: AtomicU64,
}

/// A write op of a fault run: who, when (stamps and scheduler steps), what it writes
#[derive(Clone, Debug)]
pub struct WriteRec {
    pub thread: usize,
    pub invoke: u64,
    pub ret: u64,
    pub steps: (u64, u64),
    pub op: LOp,
    pub label: String,
    pub error: Option<String>,
}

impl Shared {
    /// the handle thread `tid` uses for keyspace `ks`: its own one if it opened the name itself
    fn handle(&self, tid: usize, ks: KsIdx) -> Option<Keyspace> {
        if let Some(k) = self.dyn_ks.lock().unwrap().get(&(tid, ks)) {
            return Some(k.clone());
        }
        self.ks.get(ks as usize).and_then(|k| k.clone())
    }
    /// every keyspace index somebody holds a handle for, with one handle (thread 0's first)
    fn all_handles(&self) -> Vec<(u8, Keyspace)> {
        let mut out: BTreeMap<u8, Keyspace> = BTreeMap::new();
        for (i, k) in self.ks.iter().enumerate() {
            if let Some(k) = k {
                out.insert(i as u8, k.clone());
            }
        }
        for ((t, i), k) in self.dyn_ks.lock().unwrap().iter() {
            if *t == 0 {
                out.insert(*i, k.clone());
            }
        }
        out.into_iter().collect()
    }
    fn stamp(&self) -> u64 {
        self.stamp.fetch_add(1, Ordering::SeqCst)
    }
    fn fail(&self, clause: &str, detail: String) {
        let mut g = self.violation.lock().unwrap();
        if g.is_none() {
            *g = Some(Violation::new(clause, detail));
        }
    }
    fn failed(&self) -> bool {
        self.violation.lock().unwrap().is_some()
    }
    fn cell(&self, ks: KsIdx, key: u8) -> Cell {
        (ks, self.cfg.keys[key as usize].clone())
    }
    fn push(&self, thread: usize, invoke: u64, ret: u64, op: LOp, label: String) {
        self.events.lock().unwrap().push(LEvent { thread, invoke, ret, op, label, steps: None });
    }
    /// Records the outcome of a journaled write op
    #[allow(clippy::too_many_arguments)]
    fn wrote(&self, thread: usize, invoke: u64, ret: u64, steps: (u64, u64), op: LOp, label: String, res: Result<(), String>) {
        match res {
            Ok(()) => {
                if self.tolerate {
                    self.acked.lock().unwrap().push(WriteRec { thread, invoke, ret, steps, op: op.clone(), label: label.clone(), error: None });
                }
                self.push(thread, invoke, ret, op, label);
            }
            Err(e) => {
                if self.tolerate {
                    self.failed.lock().unwrap().push(WriteRec { thread, invoke, ret, steps, op, label, error: Some(e) });
                } else {
                    self.fail("unexpected-error", format!("{label} failed: {e}"));
                }
            }
        }
    }
    fn push_steps(&self, thread: usize, invoke: u64, ret: u64, op: LOp, label: String, steps: (u64, u64)) {
        self.events.lock().unwrap().push(LEvent { thread, invoke, ret, op, label, steps: Some(steps) });
    }
}

struct ViewAcc {
    snap: fjall::Snapshot,
    invoke: u64,
    ret: u64,
    steps: (u64, u64),
    obs: Vec<LOp>,
    /// repeatable reads: first observation per cell
    seen: BTreeMap<Cell, Option<Vec<u8>>>,
}

enum TxH {
    Sw(fjall::SingleWriterWriteTx<'static>, #[allow(dead_code)] Box<fjall::SingleWriterTxDatabase>),
    Opt(fjall::OptimisticWriteTx),
}

struct TxAcc {
    h: TxH,
    begin: u64,
    ops: Vec<TxOp>,
    results: Vec<ReadResult>,
    digest: u64,
    wrote: bool,
}

fn e2s<E: std::fmt::Debug>(e: E) -> String {
    format!("{e:?}")
}

/// Executes one client op on the calling (scheduled) thread and records what it observed.
#[allow(clippy::too_many_lines)]
fn client_op(sh: &Shared, tid: usize, op: &Op, views: &mut BTreeMap<u8, ViewAcc>, txs: &mut BTreeMap<u8, TxAcc>) {
    let keys = &sh.cfg.keys;
    let label = format!("t{tid}:{op:?}");
    macro_rules! ks {
        ($i:expr) => {
            &match sh.handle(tid, $i) {
                Some(k) => k,
                None => return,
            }
        };
    }
    match op {
        Op::Insert { ks, key, val } => {
            let k = ks!(*ks);
            let inv = sh.stamp();
            let s0 = sched::steps();
            let r = k.insert(&keys[*key as usize], val.bytes());
            let s1 = sched::steps();
            let ret = sh.stamp();
            sh.wrote(tid, inv, ret, (s0, s1), LOp::Write(vec![(sh.cell(*ks, *key), Some(val.bytes()))]), label, r.map_err(e2s));
        }
        Op::Remove { ks, key } => {
            let k = ks!(*ks);
            let inv = sh.stamp();
            let s0 = sched::steps();
            let r = k.remove(&keys[*key as usize]);
            let s1 = sched::steps();
            let ret = sh.stamp();
            sh.wrote(tid, inv, ret, (s0, s1), LOp::Write(vec![(sh.cell(*ks, *key), None)]), label, r.map_err(e2s));
        }
        Op::Batch { items, dur: d } => {
            let mut b = sh.db.batch();
            if let Some(d) = d {
                b = b.durability(Some(dur(d)));
            }
            let mut ws = vec![];
            for it in items {
                let Some(k) = sh.handle(tid, it.ks) else { continue };
                let k = &k;
                match &it.kind {
                    BKind::Put(v) => {
                        b.insert(k, &keys[it.key as usize], v.bytes());
                        ws.push((sh.cell(it.ks, it.key), Some(v.bytes())));
                    }
                    _ => {
                        b.remove(k, &keys[it.key as usize]);
                        ws.push((sh.cell(it.ks, it.key), None));
                    }
                }
            }
            if ws.is_empty() {
                return;
            }
            let inv = sh.stamp();
            let s0 = sched::steps();
            let r = b.commit();
            let s1 = sched::steps();
            let ret = sh.stamp();
            sh.wrote(tid, inv, ret, (s0, s1), LOp::Write(ws), label, r.map_err(e2s));
        }
        Op::Clear { ks } => {
            let k = ks!(*ks);
            let inv = sh.stamp();
            let s0 = sched::steps();
            let r = k.clear();
            let s1 = sched::steps();
            let ret = sh.stamp();
            sh.wrote(tid, inv, ret, (s0, s1), LOp::Clear(*ks), label, r.map_err(e2s));
        }
        Op::Ingest { ks, items } => {
            let k = ks!(*ks);
            let mut sorted: Vec<_> = items.iter().map(|(k, v)| (keys[*k as usize].clone(), *k, v)).collect();
            sorted.sort_by(|a, b| a.0.cmp(&b.0));
            let inv = sh.stamp();
            let r = (|| -> Result<(), String> {
                let mut ing = k.start_ingestion().map_err(e2s)?;
                for (key, _, v) in &sorted {
                    match v {
                        Some(v) => ing.write(&key[..], v.bytes()).map_err(e2s)?,
                        None => ing.write_tombstone(&key[..]).map_err(e2s)?,
                    }
                }
                ing.finish().map_err(e2s)
            })();
            let ret = sh.stamp();
            match r {
                Ok(()) => {
                    let ws = sorted.iter().map(|(_, ki, v)| (sh.cell(*ks, *ki), v.as_ref().map(Val::bytes))).collect();
                    sh.push(tid, inv, ret, LOp::Write(ws), label);
                }
                Err(e) => sh.fail("unexpected-error", format!("{label} failed: {e}")),
            }
        }
        Op::Read(r) => {
            let k = ks!(r.ks());
            let inv = sh.stamp();
            let s0 = sched::steps();
            let res = read_keyspace(k, keys, r);
            let s1 = sched::steps();
            let ret = sh.stamp();
            match obs_of(sh, r, &res) {
                Ok(o) => sh.push_steps(tid, inv, ret, o, label, (s0, s1)),
                Err(e) => sh.fail("unexpected-error", format!("{label}: {e}")),
            }
        }
        Op::ViewOpen { slot, kind } => {
            let inv = sh.stamp();
            let s0 = sched::steps();
            let snap = match (kind, &sh.sw, &sh.opt) {
                (ViewKind::ReadTx, Some(t), _) => t.read_tx(),
                (ViewKind::ReadTx, _, Some(t)) => t.read_tx(),
                _ => sh.db.snapshot(),
            };
            let s1 = sched::steps();
            let ret = sh.stamp();
            views.insert(*slot, ViewAcc { snap, invoke: inv, ret, steps: (s0, s1), obs: vec![], seen: BTreeMap::new() });
        }
        Op::ViewRead { slot, op: r } => {
            let Some(v) = views.get_mut(slot) else { return };
            let k = ks!(r.ks());
            let res = read_readable(&v.snap, k, keys, r);
            match obs_of(sh, r, &res) {
                Ok(o) => {
                    // repeated reads through a live view must give identical answers
                    if let LOp::Read(cells) = &o {
                        for (c, val) in cells {
                            if let Some(prev) = v.seen.get(c) {
                                if prev != val {
                                    sh.fail("frozen-view", format!("{label}: view read {:?} for a cell it had read as {:?} before [view-steps {} {} t{tid}]", val.as_ref().map(|x| crate::model::show(x)), prev.as_ref().map(|x| crate::model::show(x)), v.steps.0, v.steps.1));
                                }
                            } else {
                                v.seen.insert(c.clone(), val.clone());
                            }
                        }
                    }
                    v.obs.push(o);
                }
                Err(e) => sh.fail("frozen-view", format!("{label}: reading through a live view failed: {e}")),
            }
        }
        Op::ViewDrop { slot } => {
            if let Some(v) = views.remove(slot) {
                if !v.obs.is_empty() {
                    sh.push_steps(tid, v.invoke, v.ret, LOp::All(v.obs), format!("t{tid}:view{slot}"), v.steps);
                }
            }
        }
        Op::Rotate { ks } => {
            let k = ks!(*ks);
            if let Err(e) = k.rotate_memtable() {
                if !sh.tolerate {
                    sh.fail("unexpected-error", format!("{label} failed: {e:?}"));
                }
            }
        }
        Op::MajorCompact { ks } => {
            let k = ks!(*ks);
            if let Err(e) = k.major_compact() {
                sh.fail("unexpected-error", format!("{label} failed: {e:?}"));
            }
            // a tree version change outside the journal lock (see `beyond_inflight`)
            sched::yield_point("client_major_compacted", 0);
        }
        Op::Persist { mode } => {
            let inv = sh.stamp();
            let s0 = sched::steps();
            let r = sh.db.persist(dur(mode));
            let s1 = sched::steps();
            let ret = sh.stamp();
            if sh.tolerate {
                sh.wrote(tid, inv, ret, (s0, s1), LOp::All(vec![]), label, r.map_err(e2s));
            } else if let Err(e) = r {
                sh.fail("unexpected-error", format!("{label} failed: {e:?}"));
            }
        }
        Op::TxBegin { slot, dur: d } => {
            let begin = sh.stamp();
            let h = if let Some(sw) = &sh.sw {
                let boxed = Box::new(sw.clone());
                // SAFETY (harness only): the boxed database outlives the transaction
                let r: &'static fjall::SingleWriterTxDatabase = unsafe { &*(std::ptr::addr_of!(*boxed)) };
                let mut tx = r.write_tx();
                if sh.live_sw.fetch_add(1, Ordering::SeqCst) != 0 {
                    sh.fail("single-writer-overlap", format!("{label}: a second single-writer transaction became live while another one is open"));
                }
                if let Some(d) = d {
                    tx = tx.durability(Some(dur(d)));
                }
                TxH::Sw(tx, boxed)
            } else if let Some(o) = &sh.opt {
                match o.write_tx() {
                    Ok(mut tx) => {
                        if let Some(d) = d {
                            tx = tx.durability(Some(dur(d)));
                        }
                        TxH::Opt(tx)
                    }
                    Err(e) => {
                        sh.fail("unexpected-error", format!("{label} failed: {e:?}"));
                        return;
                    }
                }
            } else {
                return;
            };
            txs.insert(*slot, TxAcc { h, begin, ops: vec![], results: vec![], digest: 0, wrote: false });
        }
        Op::TxOp { slot, op: top } => {
            let Some(t) = txs.get_mut(slot) else { return };
            let ksidx = match top {
                TxOp::Read(r) => r.ks(),
                TxOp::Insert { ks, .. } | TxOp::InsertDerived { ks, .. } | TxOp::Remove { ks, .. } | TxOp::Take { ks, .. } | TxOp::FetchUpdate { ks, .. } | TxOp::UpdateFetch { ks, .. } => *ks,
            };
            let k = ks!(ksidx);
            let swk = sh.sw_ks.get(ksidx as usize).and_then(|k| k.as_ref());
            let upd = |f: &UpdFn| {
                let f = f.clone();
                move |p: Option<&fjall::UserValue>| -> Option<fjall::UserValue> { apply_updfn(&f, p.map(|x| x.to_vec()).as_ref()).map(Into::into) }
            };
            let val = |r: fjall::Result<Option<fjall::UserValue>>| match r {
                Ok(v) => ReadResult::Val(v.map(|x| x.to_vec())),
                Err(e) => ReadResult::Err(e2s(e)),
            };
            let digest_before = t.digest;
            let res: ReadResult = match (&mut t.h, top) {
                (TxH::Sw(tx, _), TxOp::Read(r)) => read_readable(tx, k, keys, r),
                (TxH::Opt(tx), TxOp::Read(r)) => read_readable(tx, k, keys, r),
                (TxH::Sw(tx, _), TxOp::Insert { key, val, .. }) => {
                    tx.insert(swk.unwrap(), &keys[*key as usize], val.bytes());
                    ReadResult::Bool(true)
                }
                (TxH::Opt(tx), TxOp::Insert { key, val, .. }) => {
                    tx.insert(k, &keys[*key as usize], val.bytes());
                    ReadResult::Bool(true)
                }
                (TxH::Sw(tx, _), TxOp::InsertDerived { key, id, .. }) => {
                    tx.insert(swk.unwrap(), &keys[*key as usize], derive_value(*id, digest_before));
                    ReadResult::Bool(true)
                }
                (TxH::Opt(tx), TxOp::InsertDerived { key, id, .. }) => {
                    tx.insert(k, &keys[*key as usize], derive_value(*id, digest_before));
                    ReadResult::Bool(true)
                }
                (TxH::Sw(tx, _), TxOp::Remove { key, .. }) => {
                    tx.remove(swk.unwrap(), &keys[*key as usize]);
                    ReadResult::Bool(true)
                }
                (TxH::Opt(tx), TxOp::Remove { key, .. }) => {
                    tx.remove(k, &keys[*key as usize]);
                    ReadResult::Bool(true)
                }
                (TxH::Sw(tx, _), TxOp::Take { key, .. }) => val(tx.take(swk.unwrap(), &keys[*key as usize][..])),
                (TxH::Opt(tx), TxOp::Take { key, .. }) => val(tx.take(k, &keys[*key as usize][..])),
                (TxH::Sw(tx, _), TxOp::FetchUpdate { key, f, .. }) => val(tx.fetch_update(swk.unwrap(), &keys[*key as usize][..], upd(f))),
                (TxH::Opt(tx), TxOp::FetchUpdate { key, f, .. }) => val(tx.fetch_update(k, &keys[*key as usize][..], upd(f))),
                (TxH::Sw(tx, _), TxOp::UpdateFetch { key, f, .. }) => val(tx.update_fetch(swk.unwrap(), &keys[*key as usize][..], upd(f))),
                (TxH::Opt(tx), TxOp::UpdateFetch { key, f, .. }) => val(tx.update_fetch(k, &keys[*key as usize][..], upd(f))),
            };
            if let ReadResult::Err(e) = &res {
                sh.fail("unexpected-error", format!("{label}: {e}"));
            }
            if !matches!(top, TxOp::Read(_)) {
                t.wrote = true;
            }
            // the digest of everything read so far feeds derived values (same rule as the model)
            if matches!(top, TxOp::Read(_) | TxOp::Take { .. } | TxOp::FetchUpdate { .. } | TxOp::UpdateFetch { .. }) {
                t.digest = res.digest(t.digest);
            }
            t.ops.push(top.clone());
            t.results.push(res);
        }
        Op::TxEnd { slot, end } => {
            let Some(t) = txs.remove(slot) else { return };
            let is_sw = matches!(t.h, TxH::Sw(..));
            let commit_inv = sh.stamp();
            // "live" = user code holds an open single-writer transaction: from the return of
            // write_tx() to the start of commit / rollback / drop
            if is_sw {
                sh.live_sw.fetch_sub(1, Ordering::SeqCst);
            }
            let committed = match (t.h, end) {
                (TxH::Sw(tx, _b), TxEnd::Commit) => {
                    let r = tx.commit();
                    match r {
                        Ok(()) => Some(true),
                        Err(e) => {
                            sh.fail("unexpected-error", format!("{label} failed: {e:?}"));
                            Some(false)
                        }
                    }
                }
                (TxH::Opt(tx), TxEnd::Commit) => match tx.commit() {
                    Ok(Ok(())) => Some(true),
                    Ok(Err(_)) => Some(false),
                    Err(e) => {
                        sh.fail("unexpected-error", format!("{label} failed: {e:?}"));
                        Some(false)
                    }
                },
                (h, _) => {
                    drop(h);
                    Some(false)
                }
            };
            let endst = sh.stamp();
            if committed == Some(true) && t.wrote {
                sh.committed_incr.fetch_add(1, Ordering::SeqCst);
                // the transaction's final write set becomes visible atomically at commit
                let mut ws: BTreeMap<Cell, Option<Vec<u8>>> = BTreeMap::new();
                let mut dg = 0u64;
                for (top, res) in t.ops.iter().zip(t.results.iter()) {
                    match (top, res) {
                        (TxOp::Insert { ks, key, val }, _) => {
                            ws.insert(sh.cell(*ks, *key), Some(val.bytes()));
                        }
                        (TxOp::InsertDerived { ks, key, id }, _) => {
                            ws.insert(sh.cell(*ks, *key), Some(derive_value(*id, dg)));
                        }
                        (TxOp::Remove { ks, key }, _) => {
                            ws.insert(sh.cell(*ks, *key), None);
                        }
                        (TxOp::Take { ks, key }, ReadResult::Val(prev)) => {
                            if prev.is_some() {
                                ws.insert(sh.cell(*ks, *key), None);
                            }
                        }
                        (TxOp::FetchUpdate { ks, key, f }, ReadResult::Val(prev)) => {
                            let new = apply_updfn(f, prev.as_ref());
                            if &new != prev {
                                ws.insert(sh.cell(*ks, *key), new);
                            }
                        }
                        (TxOp::UpdateFetch { ks, key, .. }, ReadResult::Val(new)) => {
                            ws.insert(sh.cell(*ks, *key), new.clone());
                        }
                        _ => {}
                    }
                    if matches!(top, TxOp::Read(_) | TxOp::Take { .. } | TxOp::FetchUpdate { .. } | TxOp::UpdateFetch { .. }) {
                        dg = res.digest(dg);
                    }
                }
                sh.push(tid, commit_inv, endst, LOp::Write(ws.into_iter().collect()), label);
            }
            sh.txlog.lock().unwrap().push(TxRecord {
                begin: t.begin as usize,
                end: endst as usize,
                ops: t.ops,
                results: t.results,
                committed,
                conflict: committed == Some(false),
            });
        }
        Op::TxKsInsert { ks, key, val } => {
            let begin = sh.stamp();
            let r = if let Some(Some(k)) = sh.opt_ks.get(*ks as usize) {
                k.insert(&keys[*key as usize], val.bytes())
            } else if let Some(Some(k)) = sh.sw_ks.get(*ks as usize) {
                k.insert(&keys[*key as usize], val.bytes())
            } else {
                return;
            };
            let end = sh.stamp();
            match r {
                Ok(()) => {
                    sh.txlog.lock().unwrap().push(TxRecord { begin: begin as usize, end: end as usize, ops: vec![TxOp::Insert { ks: *ks, key: *key, val: val.clone() }], results: vec![ReadResult::Bool(true)], committed: Some(true), conflict: false });
                    sh.push(tid, begin, end, LOp::Write(vec![(sh.cell(*ks, *key), Some(val.bytes()))]), label);
                }
                Err(e) => sh.fail("unexpected-error", format!("{label} failed: {e:?}")),
            }
        }
        Op::TxKsRemove { ks, key } => {
            let begin = sh.stamp();
            let r = if let Some(Some(k)) = sh.opt_ks.get(*ks as usize) {
                k.remove(&keys[*key as usize])
            } else if let Some(Some(k)) = sh.sw_ks.get(*ks as usize) {
                k.remove(&keys[*key as usize])
            } else {
                return;
            };
            let end = sh.stamp();
            match r {
                Ok(()) => {
                    sh.txlog.lock().unwrap().push(TxRecord { begin: begin as usize, end: end as usize, ops: vec![TxOp::Remove { ks: *ks, key: *key }], results: vec![ReadResult::Bool(true)], committed: Some(true), conflict: false });
                    sh.push(tid, begin, end, LOp::Write(vec![(sh.cell(*ks, *key), None)]), label);
                }
                Err(e) => sh.fail("unexpected-error", format!("{label} failed: {e:?}")),
            }
        }
        Op::TxKsTake { ks, key } | Op::TxKsFetchUpdate { ks, key, .. } | Op::TxKsUpdateFetch { ks, key, .. } => {
            let f = match op {
                Op::TxKsTake { .. } => UpdFn::Delete,
                Op::TxKsFetchUpdate { f, .. } | Op::TxKsUpdateFetch { f, .. } => f.clone(),
                _ => unreachable!(),
            };
            let f2 = f.clone();
            let fun = move |p: Option<&fjall::UserValue>| -> Option<fjall::UserValue> { apply_updfn(&f2, p.map(|x| x.to_vec()).as_ref()).map(Into::into) };
            let kb = &keys[*key as usize];
            let begin = sh.stamp();
            let r = if let Some(Some(k)) = sh.opt_ks.get(*ks as usize) {
                match op {
                    Op::TxKsTake { .. } => k.take(&kb[..]),
                    Op::TxKsFetchUpdate { .. } => k.fetch_update(&kb[..], fun),
                    _ => k.update_fetch(&kb[..], fun),
                }
            } else if let Some(Some(k)) = sh.sw_ks.get(*ks as usize) {
                match op {
                    Op::TxKsTake { .. } => k.take(&kb[..]),
                    Op::TxKsFetchUpdate { .. } => k.fetch_update(&kb[..], fun),
                    _ => k.update_fetch(&kb[..], fun),
                }
            } else {
                return;
            };
            let end = sh.stamp();
            match r {
                Ok(v) => {
                    let top = match op {
                        Op::TxKsTake { .. } => TxOp::Take { ks: *ks, key: *key },
                        Op::TxKsFetchUpdate { .. } => TxOp::FetchUpdate { ks: *ks, key: *key, f },
                        _ => TxOp::UpdateFetch { ks: *ks, key: *key, f },
                    };
                    sh.txlog.lock().unwrap().push(TxRecord { begin: begin as usize, end: end as usize, ops: vec![top], results: vec![ReadResult::Val(v.map(|x| x.to_vec()))], committed: Some(true), conflict: false });
                }
                Err(e) => sh.fail("unexpected-error", format!("{label} failed: {e:?}")),
            }
        }
        Op::CreateKs { ks } | Op::OpenKsWith { ks, .. } => {
            // open-or-create by name, possibly while other threads do the same (with the
            // configured options, or with this caller's own)
            let name = sh.cfg.names[*ks as usize].clone();
            let o = match op {
                Op::OpenKsWith { opts, .. } => opts.clone(),
                _ => sh.cfg.opts[*ks as usize].clone(),
            };
            match sh.db.keyspace(&name, move || crate::inst::make_opts(&o)) {
                Ok(k) => {
                    sh.dyn_ks.lock().unwrap().insert((tid, *ks), k);
                    sh.created.lock().unwrap().insert(*ks);
                    sh.deleted.lock().unwrap().remove(ks);
                }
                Err(e) => sh.fail("unexpected-error", format!("{label} failed: {e:?}")),
            }
        }
        Op::DeleteKs { ks } => {
            // only generated after the threads have finished (main program tail)
            let Some(k) = sh.handle(tid, *ks) else { return };
            match sh.db.delete_keyspace(k) {
                Ok(()) => {
                    sh.dyn_ks.lock().unwrap().retain(|(_, i), _| i != ks);
                    sh.deleted.lock().unwrap().insert(*ks);
                    if sh.db.keyspace_exists(&sh.cfg.names[*ks as usize]) {
                        sh.fail("keyspace-deleted-still-exists", format!("{label}: the name still exists after delete_keyspace"));
                    }
                }
                Err(e) => sh.fail("unexpected-error", format!("{label} failed: {e:?}")),
            }
        }
        _ => {}
    }
}

fn obs_of(sh: &Shared, r: &ReadOp, res: &ReadResult) -> Result<LOp, String> {
    let keys = &sh.cfg.keys;
    Ok(match (r, res) {
        (ReadOp::Get { ks, key }, ReadResult::Val(v)) => LOp::Read(vec![((*ks, keys[*key as usize].clone()), v.clone())]),
        (ReadOp::Contains { ks, key }, ReadResult::Bool(b)) => LOp::Exists((*ks, keys[*key as usize].clone()), *b),
        (ReadOp::SizeOf { ks, key }, ReadResult::Size(s)) => LOp::Size((*ks, keys[*key as usize].clone()), *s),
        (ReadOp::Scan { ks, range, mode }, ReadResult::Items(items)) => {
            // consumption order -> key order
            let mut it = items.clone();
            it.sort();
            let _ = mode;
            match range {
                RangeSpec::All => LOp::ReadAll(*ks, it),
                r => LOp::ReadRange(*ks, r.clone(), it),
            }
        }
        (ReadOp::Len { ks }, ReadResult::Count(_)) | (ReadOp::IsEmpty { ks }, ReadResult::Bool(_)) | (ReadOp::First { ks }, ReadResult::Kv(_)) | (ReadOp::Last { ks }, ReadResult::Kv(_)) => {
            // weak observations: recorded as no-ops (they constrain nothing in the checker)
            let _ = ks;
            LOp::All(vec![])
        }
        (_, ReadResult::Err(e)) => return Err(e.clone()),
        (r, res) => return Err(format!("unexpected result {} for {r:?}", res.brief())),
    })
}

fn read_store(sh: &Shared) -> Result<Store, String> {
    let mut st = Store::new();
    for (i, k) in sh.all_handles() {
        for g in k.iter() {
            let (key, v) = g.into_inner().map_err(e2s)?;
            st.insert((i, key.to_vec()), v.to_vec());
        }
    }
    Ok(st)
}

pub fn run_thr(case: &Case, dir: PathBuf) -> Outcome {
    // a setup that ends in `Reopen`: a first instance (no threads, nothing scheduled) creates the
    // keyspaces and the seed content and is closed; the run proper then works on the RECOVERED
    // database
    {
        let split = case.program.iter().position(|o| matches!(o, Op::RunThreads)).unwrap_or(case.program.len());
        if case.program[..split].iter().any(|o| matches!(o, Op::Reopen)) {
            crate::hooks::set_mode(crate::hooks::MODE_SEQ);
            crate::hooks::set_rotation_threshold(case.cfg.rotation_threshold);
            let mut cfg0 = case.cfg.clone();
            cfg0.workers = 0;
            let first = (|| -> Result<(), String> {
                let mut inst = Instance::open(&dir, &cfg0)?;
                for op in &case.program[..split] {
                    match op {
                        Op::CreateKs { ks } => inst.open_ks(&cfg0, *ks as usize, &cfg0.opts[*ks as usize])?,
                        Op::Insert { ks, key, val } => {
                            if let Some(k) = inst.k(*ks) {
                                k.insert(&cfg0.keys[*key as usize], val.bytes()).map_err(|e| format!("{e:?}"))?;
                            }
                        }
                        _ => {}
                    }
                }
                Ok(())
            })();
            if let Err(e) = first {
                let mut o = Outcome::ok(Stats::default(), 0);
                o.violation = Some(Violation::new("open-failed", format!("first instance: {e}")));
                return o;
            }
        }
    }
    crate::hooks::set_mode(crate::hooks::MODE_THR);
    crate::hooks::set_rotation_threshold(case.cfg.rotation_threshold);
    let max_steps = 400_000;
    sched::begin(case.cfg.sched_seed, case.cfg.stickiness, case.schedule.clone(), max_steps);
    sched::set_starve_on_drop(case.cfg.starve_on_drop);
    let mut stats = Stats::default();
    let mut violation: Option<Violation> = None;

    // power-loss runs: the synced images must cover the directory from its creation on
    let pmon = if matches!(case.fault, Fault::Power { .. }) {
        let scratch = dir.with_extension("scratch");
        crate::interpose::bypass(|| std::fs::create_dir_all(&scratch).ok());
        let m = crate::faults::Mon::new(&dir, &scratch, Fault::Power { points: Some(vec![]), variant: 0, vseed: case.seed }, case.seed);
        crate::faults::install(&m);
        m.lock().unwrap().enabled = true;
        Some(m)
    } else {
        None
    };
    let inst = Instance::open(&dir, &case.cfg);
    let mut inst = match inst {
        Ok(i) => i,
        Err(e) => {
            let rec = sched::end();
            crate::hooks::set_mode(crate::hooks::MODE_SEQ);
            let mut o = Outcome::ok(stats, rec.hash);
            o.violation = Some(Violation::new("open-failed", e));
            return o;
        }
    };
    // fault runs: I/O errors injected through the libc seam (the monitor is thread safe and only one
    // scheduled thread runs at a time)
    let mon = if matches!(case.fault, Fault::Io { .. }) {
        let scratch = dir.with_extension("scratch");
        crate::interpose::bypass(|| std::fs::create_dir_all(&scratch).ok());
        let m = crate::faults::Mon::new(&dir, &scratch, case.fault.clone(), case.seed);
        crate::faults::install(&m);
        Some(m)
    } else {
        None
    };
    let is_power = matches!(case.fault, Fault::Power { .. });
    // setup part of the main program (up to RunThreads)
    let split = case.program.iter().position(|o| matches!(o, Op::RunThreads)).unwrap_or(case.program.len());
    for op in &case.program[..split] {
        if let Op::CreateKs { ks } = op {
            if let Err(e) = inst.open_ks(&case.cfg, *ks as usize, &case.cfg.opts[*ks as usize]) {
                violation = Some(Violation::new("unexpected-error", format!("keyspace creation failed: {e}")));
            }
        }
    }
    let sh = Arc::new(Shared {
        cfg: case.cfg.clone(),
        db: inst.db.clone(),
        sw: inst.sw.clone(),
        opt: inst.opt.clone(),
        ks: inst.ks.clone(),
        sw_ks: inst.sw_ks.clone(),
        opt_ks: inst.opt_ks.clone(),
        events: Mutex::new(vec![]),
        txlog: Mutex::new(vec![]),
        stamp: AtomicU64::new(1),
        violation: Mutex::new(None),
        stats: Mutex::new(Stats::default()),
        live_sw: AtomicI64::new(0),
        committed_incr: AtomicU64::new(0),
        tolerate: matches!(case.fault, Fault::Io { .. } | Fault::Power { .. }),
        failed: Mutex::new(vec![]),
        acked: Mutex::new(vec![]),
        dyn_ks: Mutex::new(BTreeMap::new()),
        created: Mutex::new(Default::default()),
        deleted: Mutex::new(Default::default()),
        max_visible: AtomicU64::new(0),
    });
    drop(inst);
    let mut mviews = BTreeMap::new();
    let mut mtxs = BTreeMap::new();
    for op in &case.program[..split] {
        if !matches!(op, Op::CreateKs { .. }) {
            client_op(&sh, 0, op, &mut mviews, &mut mtxs);
        }
    }
    // everything done so far is sequential: it defines the initial state
    let initial = match read_store(&sh) {
        Ok(s) => s,
        Err(e) => {
            violation = Some(Violation::new("unexpected-error", format!("initial scan failed: {e}")));
            Store::new()
        }
    };
    sh.events.lock().unwrap().clear();
    let tx_initial: State = {
        let mut st = State::default();
        for (i, k) in sh.ks.iter().enumerate() {
            if k.is_some() {
                st.ks.insert(i as u8, crate::model::KsState::default());
            }
        }
        for ((ks, key), v) in &initial {
            st.map_mut(*ks).unwrap().insert(key.clone(), v.clone());
        }
        st
    };
    sh.txlog.lock().unwrap().clear();

    if let Some(m) = &mon {
        m.lock().unwrap().enabled = true;
    }
    // client threads
    let mut ids = vec![];
    let mut handles = vec![];
    if violation.is_none() {
        for (ti, prog) in case.threads.iter().enumerate() {
            let sh2 = sh.clone();
            let prog = prog.clone();
            let (id, h) = sched::spawn(move || {
                // scheduler thread ids, so that observations can be matched with the hook log
                let ti = sched::my_id().unwrap_or(ti + 1) - 1;
                let mut views = BTreeMap::new();
                let mut txs = BTreeMap::new();
                for op in &prog {
                    if sh2.failed() || sched::failure().is_some() {
                        break;
                    }
                    sched::yield_point("client_op", 0);
                    client_op(&sh2, ti + 1, op, &mut views, &mut txs);
                    // the instant handed to new views never moves backwards; if it just did, this
                    // client looks at once (an ordinary scan of its own, recorded like any other)
                    let vis = sh2.db.visible_seqno();
                    let seen = sh2.max_visible.fetch_max(vis, Ordering::SeqCst);
                    if vis < seen && sh2.cfg.db_kind == DbKind::Plain {
                        sh2.stats.lock().unwrap().inc("probe_visible_seqno_moved_backwards");
                        for ks in 0..sh2.cfg.names.len() as u8 {
                            if sh2.ks.get(ks as usize).is_some_and(|k| k.is_some()) {
                                client_op(&sh2, ti + 1, &Op::Read(ReadOp::Scan { ks, range: RangeSpec::All, mode: ScanMode::Fwd }), &mut views, &mut txs);
                            }
                        }
                    }
                }
                // close whatever is still open (observations of open views count)
                let open: Vec<u8> = views.keys().copied().collect();
                for s in open {
                    client_op(&sh2, ti + 1, &Op::ViewDrop { slot: s }, &mut views, &mut txs);
                }
                let open: Vec<u8> = txs.keys().copied().collect();
                for s in open {
                    client_op(&sh2, ti + 1, &Op::TxEnd { slot: s, end: TxEnd::Drop }, &mut views, &mut txs);
                }
            });
            ids.push(id);
            handles.push(h);
        }
        sched::wait_until("join_clients", || ids.iter().all(|i| sched::is_done(*i)));
    }
    if let Some(f) = sched::failure() {
        // deadlock / livelock / lost baton: the process state is beyond repair; leak everything
        let clause = if f.starts_with("harness") { "harness" } else { "no-progress" };
        if mon.is_some() || pmon.is_some() {
            crate::faults::uninstall();
        }
        let rec = sched::end();
        crate::hooks::set_mode(crate::hooks::MODE_SEQ);
        std::mem::forget(handles);
        let shape = crate::rng::mix(rec.hash);
        std::mem::forget(sh);
        let mut o = Outcome::ok(stats, rec.hash);
        if clause == "harness" {
            o.harness_error = Some(f);
        } else {
            o.violation = Some(Violation::new("no-progress", f));
        }
        o.schedule = Some(rec.choices);
        o.shape = shape;
        o.nontrivial = true;
        return o;
    }
    for h in handles {
        let _ = h.join();
    }
    let mut fault_desc = String::new();
    if let Some(m) = &mon {
        let mut g = m.lock().unwrap();
        g.enabled = false;
        fault_desc = g.io.fired_desc.clone();
        stats.merge(&g.stats);
        if g.io.fired_at_call.is_some() {
            stats.inc("io_fault_fired");
        }
    }
    // every handle of one name denotes one keyspace with one set of options (C12 / C16)
    let mut rows_at_end: BTreeMap<u8, Vec<(Vec<u8>, Vec<u8>)>> = BTreeMap::new();
    {
        let mut by_ks: BTreeMap<u8, Vec<(usize, Keyspace)>> = BTreeMap::new();
        for (i, k) in sh.ks.iter().enumerate() {
            if let Some(k) = k {
                by_ks.entry(i as u8).or_default().push((0, k.clone()));
            }
        }
        for ((t, i), k) in sh.dyn_ks.lock().unwrap().iter() {
            by_ks.entry(*i).or_default().push((*t, k.clone()));
        }
        for (i, hs) in by_ks {
            let Some((t0, first)) = hs.first() else { continue };
            let rows0 = fjall::verif::keyspace_option_rows(first);
            rows_at_end.insert(i, rows0.clone());
            for (t, k) in &hs[1..] {
                if k.id() != first.id() {
                    sh.fail(
                        "keyspace-identity",
                        format!("threads t{t0} and t{t} both opened {:?} and hold different keyspaces (internal ids {} and {})", sh.cfg.names[i as usize], first.id(), k.id()),
                    );
                } else if fjall::verif::keyspace_option_rows(k) != rows0 {
                    sh.fail("options-changed", format!("handles of t{t0} and t{t} for {:?} report different options", sh.cfg.names[i as usize]));
                }
            }
            sh.stats.lock().unwrap().inc("handle_identity_checks");
        }
    }
    // C13: a journal I/O error that no client call reported hit background work (a worker's
    // journal rotation): it must not be swallowed - the database has to end up poisoned
    if let (Some(m), Fault::Io { kind: IoKind::Eio | IoKind::Enospc, .. }) = (&mon, &case.fault) {
        let fired = m.lock().unwrap().io.fired_at_call.is_some();
        if fired && sh.failed.lock().unwrap().is_empty() && !sh.failed() {
            let mut spins = 0u32;
            sched::wait_until("settle_after_background_fault", || {
                spins += 1;
                spins > 120 || fjall::verif::is_poisoned(&sh.db)
            });
            sh.stats.lock().unwrap().inc("probe_fault_hit_background_work");
            if !fjall::verif::is_poisoned(&sh.db) {
                sh.fail(
                    "journal-failure-swallowed",
                    format!("the injected {fault_desc} was returned to fjall (no client call reported an error, so it hit background work) but the database is not poisoned: later writes are acknowledged"),
                );
            }
        }
    }
    let poisoned_after_run = fjall::verif::is_poisoned(&sh.db);
    // rest of the main program, then the final content
    for op in case.program.iter().skip(split + 1) {
        client_op(&sh, 0, op, &mut mviews, &mut mtxs);
    }
    let final_store = read_store(&sh);
    if let Ok(fs) = &final_store {
        let inv = sh.stamp();
        for (i, _) in sh.all_handles() {
            let items: Vec<(Vec<u8>, Vec<u8>)> = fs.iter().filter(|((k, _), _)| *k == i).map(|((_, key), v)| (key.clone(), v.clone())).collect();
            let ret = sh.stamp();
            sh.push(0, inv, ret, LOp::ReadAll(i, items), format!("final content of keyspace {i}"));
        }
    }
    // final point reads: after every thread has finished, point reads must agree with the scans
    // (they are served by a different read path: first hit memtable -> sealed -> tables)
    if let Ok(fs) = &final_store {
        for (i, k) in sh.all_handles() {
            let i = i as usize;
            for key in &sh.cfg.keys {
                let inv = sh.stamp();
                let got = k.get(key).map(|v| v.map(|x| x.to_vec()));
                let ret = sh.stamp();
                match got {
                    Ok(v) => {
                        if v.as_ref() != fs.get(&(i as u8, key.clone())) {
                            sh.fail(
                                "point-scan-disagree",
                                format!(
                                    "after all threads finished, get({}) on keyspace {i} returns {:?} but the scan shows {:?}",
                                    crate::model::show(key),
                                    v.as_ref().map(|x| crate::model::show(x)),
                                    fs.get(&(i as u8, key.clone())).map(|x| crate::model::show(x))
                                ),
                            );
                        }
                        sh.push(0, inv, ret, LOp::Read(vec![((i as u8, key.clone()), v)]), format!("final get {}", crate::model::show(key)));
                    }
                    Err(e) => sh.fail("unexpected-error", format!("final get failed: {e:?}")),
                }
            }
        }
    }
    if violation.is_none() {
        violation = sh.violation.lock().unwrap().clone();
    }
    let final_names: Vec<u8> = sh.all_handles().into_iter().map(|(i, _)| i).collect();
    let events = sh.events.lock().unwrap().clone();
    let acked_w = sh.acked.lock().unwrap().clone();
    let failed_w = sh.failed.lock().unwrap().clone();
    let txlog = sh.txlog.lock().unwrap().clone();
    let committed_incr = sh.committed_incr.load(Ordering::SeqCst);
    stats.merge(&sh.stats.lock().unwrap());
    let cfg = case.cfg.clone();
    // drop every handle on this (scheduled) thread: fjall's drop logic runs under the scheduler
    let pmon2 = pmon.clone();
    let drop_snap: Arc<Mutex<Option<crate::faults::Snap>>> = Arc::new(Mutex::new(None));
    let drop_snap2 = drop_snap.clone();
    let closing = std::panic::catch_unwind(std::panic::AssertUnwindSafe(move || {
        drop(mviews);
        drop(mtxs);
        match Arc::try_unwrap(sh) {
            Ok(s) => drop(s),
            Err(a) => drop(a),
        }
        // the instant the last user handle's drop has returned: what would survive a power loss?
        if let Some(m) = &pmon2 {
            let live_workers = sched::live_threads().saturating_sub(1);
            let mut g = m.lock().unwrap();
            if live_workers > 0 {
                g.stats.inc("probe_worker_alive_when_drop_returned");
            }
            *drop_snap2.lock().unwrap() = g.power_state_now("right after the last handle was dropped");
        }
        // every scheduled thread (fjall's workers included) must have left the section
        sched::wait_until("final_join", || sched::live_threads() <= 1);
    }));
    let close_failure = sched::failure();
    let rec = sched::end();
    if closing.is_err() || close_failure.is_some() {
        crate::hooks::set_mode(crate::hooks::MODE_SEQ);
        if mon.is_some() || pmon.is_some() {
            crate::faults::uninstall();
        }
        let f = close_failure.unwrap_or_else(|| "panic while closing".into());
        let mut o = Outcome::ok(stats, rec.hash);
        // t0 waiting in final_join means drop() has returned: then the stuck threads are
        // background workers that outlive the last handle
        let what = if f.contains("t0:Blocked(\"final_join\")") {
            "the last database handle was dropped (drop returned) but a background worker thread is still alive and never stops"
        } else {
            "dropping the last database handle never completes"
        };
        o.violation = Some(Violation::new(
            "no-progress",
            format!("{what}: {f}{}", if fault_desc.is_empty() { String::new() } else { format!(" (after the injected {fault_desc})") }),
        ));
        o.schedule = Some(rec.choices);
        o.shape = crate::rng::mix(rec.hash);
        o.nontrivial = true;
        return o;
    }
    crate::hooks::set_mode(crate::hooks::MODE_SEQ);
    if let Some(f) = &rec.failure {
        if violation.is_none() {
            violation = Some(Violation::new("no-progress", format!("while closing: {f}")));
        }
    }

    stats.add("sim_steps", rec.steps);
    stats.add("context_switches", rec.switches);
    stats.add("blocked_yields", rec.blocked_yields);
    for (k, v) in &rec.site_hits {
        stats.add(&format!("site_{k}"), *v);
    }
    stats.add("lin_events", events.len() as u64);

    if let Some(v) = &mut violation {
        if v.clause == "frozen-view" {
            if let Some(pos) = v.detail.find("[view-steps ") {
                let parts: Vec<&str> = v.detail[pos + 12..].trim_end_matches(']').split(' ').collect();
                if let (Some(a), Some(b), Some(t)) = (parts.first().and_then(|x| x.parse::<u64>().ok()), parts.get(1).and_then(|x| x.parse::<u64>().ok()), parts.get(2).and_then(|x| x.trim_start_matches('t').parse::<usize>().ok())) {
                    if let Some((s, _, i, c)) = beyond_inflight(&rec.log).into_iter().find(|(s, th, _, _)| *th == t && a <= *s && *s <= b) {
                        v.detail.push_str(&format!(" [visible-seqno-beyond-inflight-commit: at step {s} the view registered instant {i} while commit seqno {c} of another thread was not fully applied]"));
                    }
                }
            }
        }
    }
    if mon.is_some() {
        crate::faults::uninstall();
        if violation.is_none() {
            violation = check_fault_run(case, &dir, &initial, &acked_w, &failed_w, &rec.log, &fault_desc, poisoned_after_run, &mut stats);
        }
    }
    if let Some(m) = &pmon {
        crate::faults::uninstall();
        stats.merge(&m.lock().unwrap().stats);
        if violation.is_none() {
            if let Some(snap) = drop_snap.lock().unwrap().take() {
                stats.inc("power_state_after_drop_checked");
                // the power-loss state must hold every acknowledged write (commit order)
                violation = check_fault_run(case, &snap.dir, &initial, &acked_w, &failed_w, &rec.log, "power loss right after the last handle was dropped", false, &mut stats).map(|mut v| {
                    v.clause = "drop-not-durable".into();
                    v.detail = format!("a power loss right after drop(Database) returned loses acknowledged writes (the journal was not synced yet): {}", v.detail);
                    v
                });
                crate::fsutil::remove_tree(&snap.dir);
            }
        }
    }
    let _ = is_power;
    if violation.is_none() && mon.is_none() && pmon.is_none() {
        match case.prop.as_str() {
            "C07" => {
                let final_state = match &final_store {
                    Ok(fs) => {
                        let mut st = tx_initial.clone();
                        for k in st.ks.values_mut() {
                            k.map.clear();
                        }
                        for ((ks, key), v) in fs {
                            if let Some(m) = st.map_mut(*ks) {
                                m.insert(key.clone(), v.clone());
                            }
                        }
                        st
                    }
                    Err(_) => tx_initial.clone(),
                };
                let r = crate::serial::check(&tx_initial, &txlog, &cfg.keys, &final_state);
                stats.add("serial_orders_explored", r.explored);
                stats.add("serial_txs", txlog.iter().filter(|t| t.committed == Some(true)).count() as u64);
                if !r.ok {
                    violation = Some(Violation::new("not-serialisable", format!("no serial order consistent with real time explains the committed transactions: {}", r.explanation)));
                }
            }
            "C08" => {
                // lost updates: the counter cell must equal the number of committed increments
                let r = crate::serial::check(&tx_initial, &txlog, &cfg.keys, &{
                    let mut st = tx_initial.clone();
                    for k in st.ks.values_mut() {
                        k.map.clear();
                    }
                    if let Ok(fs) = &final_store {
                        for ((ks, key), v) in fs {
                            if let Some(m) = st.map_mut(*ks) {
                                m.insert(key.clone(), v.clone());
                            }
                        }
                    }
                    st
                });
                stats.add("serial_orders_explored", r.explored);
                stats.add("committed_write_txs", committed_incr);
                if !r.ok {
                    violation = Some(Violation::new("lost-update", format!("single-writer transactions are not explained by any serial order: {}", r.explanation)));
                }
            }
            // C04 / C12 / C16 thread runs are judged by handle identity and the reopen check
            // above; whether concurrent reads and writes are linearizable is C14's verdict
            "C04" | "C10" => {}
            _ => {
                let r = lin::check(&initial, &events, 3_000_000);
                stats.add("lin_states_explored", r.explored);
                if r.skipped {
                    stats.inc("lin_undecided");
                }
                if !r.ok {
                    let clause = match case.prop.as_str() {
                        "C06" => "batch-visibility",
                        "C05" => "frozen-view",
                        _ => "not-linearizable",
                    };
                    let mut ev: Vec<&LEvent> = events.iter().collect();
                    ev.sort_by_key(|e| e.invoke);
                    let hist: Vec<String> = ev.iter().map(|e| format!("[{}..{}] {} => {}", e.invoke, e.ret, e.label, brief_op(&e.op))).collect();
                    let tag = explain(&initial, &events, &rec.log).unwrap_or_default();
                    violation = Some(Violation::new(clause, format!("{}{tag} || history: {}", r.explanation, hist.join(" | "))));
                }
            }
        }
    }
    // C12 (THR): after closing, the directory must hold exactly the names that existed at the
    // end, each with the content every handle agreed on
    // (every fault-free THR run ends like this: what all threads agreed on must survive the close;
    // runs that bulk-ingest tombstones are left to C04/C11, where the recorded finding
    // KF-C04-ingested-tombstone-gc - a journaled value resurrected after an ingested tombstone was
    // dropped - is matched by its own discriminator)
    let ingests_tombstones = case.threads.iter().flatten().chain(case.program.iter()).any(|o| matches!(o, Op::Ingest { items, .. } if items.iter().any(|(_, v)| v.is_none())));
    if violation.is_none() && mon.is_none() && pmon.is_none() && (!ingests_tombstones || case.prop == "C12" || case.prop == "C16") {
        if let Ok(fs) = &final_store {
            stats.inc("reopen_after_thread_run");
            match std::panic::catch_unwind(std::panic::AssertUnwindSafe(|| crate::faults::read_dir_state(&dir, &cfg))) {
                Ok(Ok(maps)) => {
                    let got: Vec<u8> = maps.keys().copied().collect();
                    if got != final_names {
                        let n = |v: &[u8]| v.iter().map(|i| cfg.names[*i as usize].clone()).collect::<Vec<_>>();
                        violation = Some(Violation::new("close-reopen", format!("after reopen the keyspaces are {:?}, expected {:?}", n(&got), n(&final_names))));
                    } else {
                        for (i, m) in &maps {
                            let want: BTreeMap<Vec<u8>, Vec<u8>> = fs.iter().filter(|((k, _), _)| k == i).map(|((_, key), v)| (key.clone(), v.clone())).collect();
                            if *m != want {
                                violation = Some(Violation::new(
                                    "close-reopen",
                                    format!("after reopen keyspace {:?} holds {} items but held {} before the close (content differs)", cfg.names[*i as usize], m.len(), want.len()),
                                ));
                                break;
                            }
                        }
                    }
                }
                Ok(Err(e)) => violation = Some(Violation::new("close-reopen", format!("reopen after the thread run fails: {e}"))),
                Err(_) => violation = Some(Violation::new("close-reopen", "reopen after the thread run panics".to_string())),
            }
        }
    }
    if violation.is_none() && mon.is_none() && pmon.is_none() && case.prop == "C16" {
        // the options every handle reported are the ones in force after the reopen
        let r = std::panic::catch_unwind(std::panic::AssertUnwindSafe(|| -> Result<Option<String>, String> {
            let mut inst = Instance::open_with(&dir, &cfg, cfg.journal_lz4, 0)?;
            for i in &final_names {
                inst.open_ks(&cfg, *i as usize, &cfg.opts[*i as usize])?;
                let rows = fjall::verif::keyspace_option_rows(inst.k(*i).unwrap());
                if let Some(r0) = rows_at_end.get(i) {
                    // the internal id is part of the row keys, so this also pins the identity
                    if *r0 != rows {
                        return Ok(Some(format!("keyspace {:?}: the option rows after reopen differ from the ones its handles reported before the close", cfg.names[*i as usize])));
                    }
                }
            }
            Ok(None)
        }));
        match r {
            Ok(Ok(None)) => stats.inc("option_rows_checked_after_thread_run"),
            Ok(Ok(Some(d))) => violation = Some(Violation::new("options-changed", d)),
            Ok(Err(e)) => violation = Some(Violation::new("close-reopen", format!("reopen after the thread run fails: {e}"))),
            Err(_) => violation = Some(Violation::new("close-reopen", "reopen after the thread run panics".to_string())),
        }
    }
    let mut o = Outcome::ok(stats, rec.hash);
    o.violation = violation;
    o.schedule = Some(rec.choices);
    o.shape = crate::rng::mix(rec.hash ^ crate::props::shape_hash(case));
    o.nontrivial = rec.switches > 2 && !events.is_empty() || !txlog.is_empty();
    o.evals = 1;
    o
}

/// C13 (THR): fail-stop with several writer threads and fjall's own workers.
#[allow(clippy::too_many_arguments)]
fn check_fault_run(
    case: &Case,
    dir: &std::path::Path,
    initial: &Store,
    acked: &[WriteRec],
    failed: &[WriteRec],
    log: &[(u64, usize, &'static str, u64)],
    fault_desc: &str,
    poisoned: bool,
    stats: &mut Stats,
) -> Option<Violation> {
    // (2) nothing is acknowledged once a failure has been reported to some caller
    if let Some(first) = failed.iter().min_by_key(|f| f.ret) {
        stats.inc("failure_reported");
        for a in acked {
            if a.invoke > first.ret {
                return Some(Violation::new(
                    "write-acknowledged-after-failure",
                    format!("{} was acknowledged (invoked at {}) although {} had already returned an error at {} after the injected {fault_desc}", a.label, a.invoke, first.label, first.ret),
                ));
            }
        }
    }
    if poisoned {
        stats.inc("poisoned_after_run");
    }
    let seqno_of = |w: &WriteRec| -> Option<u64> {
        log.iter().find(|(step, tid, site, _)| *tid == w.thread && site.ends_with("_seqno") && w.steps.0 <= *step && *step <= w.steps.1).map(|x| x.3)
    };
    // (2') the same in commit order, for writers that were already inside their call when the
    // failure happened: a write that drew its sequence number after the failed write drew its own
    // entered the journal critical section after the failure and must have been refused
    if let Some((fs, f)) = failed.iter().filter_map(|f| seqno_of(f).map(|s| (s, f))).min_by_key(|x| x.0) {
        for a in acked {
            if let Some(sa) = seqno_of(a) {
                if sa > fs {
                    return Some(Violation::new(
                        "write-acknowledged-after-failure",
                        format!(
                            "{} (seqno {sa}) was acknowledged although it entered the journal after {} (seqno {fs}) had failed with {:?} (injected {fault_desc}); both calls overlapped in time",
                            a.label, f.label, f.error
                        ),
                    ));
                }
            }
        }
    }
    // (3) reopen: every acknowledged write in commit order, failed writes all-or-nothing
    let mut ordered: Vec<(u64, &WriteRec, bool)> = vec![];
    for a in acked {
        if matches!(a.op, LOp::All(_)) {
            continue;
        }
        match seqno_of(a) {
            Some(s) => ordered.push((s, a, true)),
            None => return Some(Violation::new("harness", format!("no seqno recorded for acknowledged {}", a.label))),
        }
    }
    let optional: Vec<(u64, &WriteRec)> = failed.iter().filter(|f| !matches!(f.op, LOp::All(_))).filter_map(|f| seqno_of(f).map(|s| (s, f))).collect();
    let real = match std::panic::catch_unwind(std::panic::AssertUnwindSafe(|| crate::faults::read_dir_state(dir, &case.cfg))) {
        Ok(Ok(r)) => r,
        Ok(Err(e)) => return Some(Violation::new("reopen-after-failure", format!("after the injected {fault_desc} reopening fails: {e}"))),
        Err(_) => return Some(Violation::new("reopen-after-failure", format!("after the injected {fault_desc} reopening panics"))),
    };
    let mut real_store = Store::new();
    for (ks, m) in &real {
        for (k, v) in m {
            real_store.insert((*ks, k.clone()), v.clone());
        }
    }
    stats.inc("reopen_after_fault_checked");
    let n = optional.len().min(6);
    for mask in 0..(1u32 << n) {
        let mut all: Vec<(u64, &LOp)> = ordered.iter().map(|(s, w, _)| (*s, &w.op)).collect();
        for (i, (s, f)) in optional.iter().take(n).enumerate() {
            if mask & (1 << i) != 0 {
                all.push((*s, &f.op));
            }
        }
        all.sort_by_key(|x| x.0);
        let mut st = initial.clone();
        for (_, op) in all {
            match op {
                LOp::Write(ws) => {
                    for (c, v) in ws {
                        match v {
                            Some(v) => {
                                st.insert(c.clone(), v.clone());
                            }
                            None => {
                                st.remove(c);
                            }
                        }
                    }
                }
                LOp::Clear(ks) => st.retain(|(k, _), _| k != ks),
                _ => {}
            }
        }
        if st == real_store {
            return None;
        }
    }
    Some(Violation::new(
        "reopen-after-failure",
        format!(
            "after the injected {fault_desc} reopening shows {} which is not the acknowledged writes in commit order plus any subset of the {} failed writes; acknowledged: {:?}; failed: {:?}",
            crate::faults::brief_maps(&real),
            optional.len(),
            ordered.iter().map(|(s, w, _)| format!("{s}:{}", w.label)).collect::<Vec<_>>(),
            failed.iter().map(|f| format!("{} -> {:?}", f.label, f.error)).collect::<Vec<_>>()
        ),
    ))
}

/// Commits (seqno draws) of the run with the step at which they were fully applied
struct Commit {
    tid: usize,
    seqno: u64,
    drawn: u64,
    applied: u64,
}

fn commits_of(log: &[(u64, usize, &'static str, u64)]) -> Vec<Commit> {
    let mut out = vec![];
    for (i, (step, tid, site, payload)) in log.iter().enumerate() {
        if !site.ends_with("_seqno") {
            continue;
        }
        // fully applied = the last apply event of this commit by the same thread
        let mut applied = u64::MAX;
        for (s2, t2, site2, p2) in &log[i + 1..] {
            if t2 != tid {
                continue;
            }
            if site2.ends_with("_seqno") || *site2 == "client_op" {
                break;
            }
            if (*site2 == "write_applied" || *site2 == "batch_item_applied" || *site2 == "clear_applied") && p2 == payload {
                applied = *s2;
            }
            if *site2 == "write_published" || *site2 == "batch_published" {
                break;
            }
        }
        out.push(Commit { tid: *tid, seqno: *payload, drawn: *step, applied });
    }
    out
}

/// Instant reads (snapshot registrations) whose instant lies beyond a commit of another thread
/// that was not fully applied at that moment: (step, thread, instant, commit seqno)
fn beyond_inflight(log: &[(u64, usize, &'static str, u64)]) -> Vec<(u64, usize, u64, u64)> {
    // the recorded mechanism: a tree version change that does not hold the journal lock (flush
    // registration, compaction, the meta keyspace's own ingestion on keyspace create / delete)
    // completed on another thread while the commit was in flight - lsm-tree then advances the
    // shared visible-seqno counter. Without such an event the anomaly is something else.
    const VERSION_CHANGED: &[&str] = &["client_major_compacted", "worker_after_flush", "worker_after_compaction", "meta_create_ingested", "meta_remove_publish", "meta_remove_published", "rotate_sealed", "clear_applied"];
    let commits = commits_of(log);
    let mut out = vec![];
    for (step, tid, site, instant) in log {
        if *site != "snapshot_open_instant_read" {
            continue;
        }
        for c in &commits {
            if c.tid != *tid && c.drawn < *step && *step < c.applied && c.seqno < *instant {
                let caused = log.iter().any(|(s, t, site, _)| *t != c.tid && c.drawn < *s && *s <= *step && VERSION_CHANGED.contains(site));
                if caused {
                    out.push((*step, *tid, *instant, c.seqno));
                }
            }
        }
    }
    out
}

/// Tries to explain a linearizability failure by the two recorded defect classes. Returns the
/// diagnostic tags if the history becomes linearizable once the affected observations are set aside.
fn explain(initial: &Store, events: &[LEvent], log: &[(u64, usize, &'static str, u64)]) -> Option<String> {
    let anomalies = beyond_inflight(log);
    let affected = |e: &LEvent| -> bool {
        match e.steps {
            Some((a, b)) => anomalies.iter().any(|(s, t, _, _)| *t == e.thread && a <= *s && *s <= b),
            None => false,
        }
    };
    // (1) snapshots / scans whose instant is beyond an in-flight commit
    let ev1: Vec<LEvent> = events.iter().filter(|e| !affected(e)).cloned().collect();
    let dropped1 = events.len() - ev1.len();
    if dropped1 > 0 {
        let r = lin::check(initial, &ev1, 1_000_000);
        if r.ok && !r.skipped {
            let (s, t, i, c) = anomalies[0];
            return Some(format!(" [visible-seqno-beyond-inflight-commit: at step {s} thread {t} registered instant {i} while commit seqno {c} of another thread was not fully applied; {dropped1} observation(s) set aside]"));
        }
    }
    // (2) point reads (served at SeqNo::MAX) that overlap an in-flight write to the same cell
    let overlaps = |e: &LEvent| -> bool {
        let cell = match &e.op {
            LOp::Read(rs) if rs.len() == 1 && e.steps.is_some() => &rs[0].0,
            LOp::Exists(c, _) | LOp::Size(c, _) => c,
            _ => return false,
        };
        events.iter().any(|w| {
            w.thread != e.thread
                && w.invoke < e.invoke
                && e.ret < w.ret
                && match &w.op {
                    LOp::Write(ws) => ws.iter().any(|(c, _)| c == cell),
                    LOp::Clear(ks) => *ks == cell.0,
                    _ => false,
                }
        })
    };
    let ev2: Vec<LEvent> = ev1.iter().filter(|e| !overlaps(e)).cloned().collect();
    let dropped2 = ev1.len() - ev2.len();
    if dropped2 > 0 {
        let r = lin::check(initial, &ev2, 1_000_000);
        if r.ok && !r.skipped {
            let mut tag = format!(" [point-read-saw-unpublished-write: {dropped2} point read(s) that ran inside another thread's in-flight write to the same key set aside]");
            if dropped1 > 0 {
                tag.push_str(" [visible-seqno-beyond-inflight-commit as well]");
            }
            return Some(tag);
        }
    }
    None
}

fn brief_op(op: &LOp) -> String {
    use crate::model::show;
    match op {
        LOp::Write(ws) => format!("W{{{}}}", ws.iter().map(|((ks, k), v)| format!("{ks}/{}={}", show(k), v.as_ref().map_or("∅".to_string(), |x| show(x)))).collect::<Vec<_>>().join(",")),
        LOp::Clear(ks) => format!("Clear({ks})"),
        LOp::Read(rs) => format!("R{{{}}}", rs.iter().map(|((ks, k), v)| format!("{ks}/{}={}", show(k), v.as_ref().map_or("∅".to_string(), |x| show(x)))).collect::<Vec<_>>().join(",")),
        LOp::ReadAll(ks, items) => format!("All{ks}{{{}}}", items.iter().map(|(k, v)| format!("{}={}", show(k), show(v))).collect::<Vec<_>>().join(",")),
        LOp::ReadRange(ks, _, items) => format!("Range{ks}{{{}}}", items.iter().map(|(k, v)| format!("{}={}", show(k), show(v))).collect::<Vec<_>>().join(",")),
        LOp::Exists(c, b) => format!("Exists({}/{})={b}", c.0, show(&c.1)),
        LOp::Size(c, s) => format!("Size({}/{})={s:?}", c.0, show(&c.1)),
        LOp::All(ops) => format!("Snap[{}]", ops.iter().map(brief_op).collect::<Vec<_>>().join(";")),
    }
}
